//go:build verif

package lexer

// DFA table simulation lemma: the generated transition and action tables simulate /verif's
// reference NFA of the lexical grammar. verifLexPairs relates DFA states to NFA state sets
// (found by the driver by a search from (0, start set)); for EVERY pair and a SYMBOLIC rune the
// generated transition function and the NFA step must agree (both dead, or both alive in a
// related pair), and the action row must be what the property's priority rule says for the
// set. Unbounded in the length of the lexeme.

import "gen/token"

type verifLexPair struct {
	s int
	m uint64
}

func init() {
	verifHarnesses["VerifLexTableSim"] = VerifLexTableSim
}

func VerifLexTableSim() {
	r := verifNondetRune("r")
	verifAssume(0 <= r && r <= 0x10FFFF)
	for _, p := range verifLexPairs {
		b := verifBest(p.m)
		row := ActTab[p.s]
		switch {
		case b < 0:
			verifAssert(row.Accept == 0 && row.Ignore == "", "a state without a complete pattern accepts nothing")
		case verifPatIgnored[b]:
			verifAssert(row.Accept == -1 && row.Ignore != "", "a state whose best pattern is an ignored token is an ignore state")
		default:
			verifAssert(row.Ignore == "" && token.TokMap.Id(row.Accept) == verifPatNames[b], "a state accepts the best pattern of its item set (literal first, then declaration order)")
		}
		if b >= 0 && verifPatIgnored[b] {
			continue // Scan restarts here; the state is never continued
		}
		n := TransTab[p.s](r)
		m2 := verifNFAStep(p.m, r)
		verifAssert((n == NoState) == (m2 == 0), "the DFA has a transition iff the text is still a prefix of some lexeme")
		if n != NoState {
			in := false
			for _, q := range verifLexPairs {
				if n == q.s && m2 == q.m {
					in = true
				}
			}
			verifAssert(in, "the transition leads to the state of the advanced item set")
		}
	}
	verifCover("end")
}
