//go:build verif

package lexer

// Native-only helper: the generated DFA evaluated on representative runes, as JSON.

import (
	"encoding/json"
	"fmt"
)

type verifLexDump struct {
	Trans  [][]int  `json:"trans"` // state x representative rune
	Accept []int    `json:"accept"`
	Ignore []string `json:"ignore"`
}

func init() {
	verifHarnesses["VerifDumpLexTables"] = VerifDumpLexTables
}

func VerifDumpLexTables() {
	var d verifLexDump
	for s := 0; s < NumStates; s++ {
		row := make([]int, len(verifRepRunes))
		for i, r := range verifRepRunes {
			row[i] = TransTab[s](r)
		}
		d.Trans = append(d.Trans, row)
		d.Accept = append(d.Accept, int(ActTab[s].Accept))
		d.Ignore = append(d.Ignore, ActTab[s].Ignore)
	}
	b, _ := json.Marshal(d)
	fmt.Printf("VERIF-TABLES: %s\n", b)
}
