//go:build verif

package lexer

// Harnesses over ABSTRACT lexer tables: TransTab becomes an uninterpreted function and ActTab
// arbitrary rows constrained only by the generator's table contract, so one verdict covers
// every lexical grammar whose automaton has at most NumStates states.

import (
	"unicode/utf8"

	"gen/token"
)

var verifHarnesses = map[string]func(){
	"VerifC08Step":  VerifC08Step,
	"VerifC16Reset": VerifC16Reset,
	"VerifC17Scan":  VerifC17Scan,
}

// verifAbstractTables replaces the generated tables by arbitrary ones.
// Contract (what gocc's generator guarantees, checked on every corpus table by C01):
//   - a transition leads to NoState or to a state in [1, NumStates): no transition re-enters
//     the start state (patterns that match the empty string are outside C01);
//   - every row is either an ignore row (Accept == -1, Ignore != "") or has Accept >= 0 and
//     Ignore == "" (Accept == 0 is INVALID: "inside a token, nothing matched yet").
func verifAbstractTables() {
	for s := 0; s < NumStates; s++ {
		st := s
		TransTab[st] = func(r rune) int {
			n := verifUF2("trans", st, int(r))
			verifAssume(n == NoState || (1 <= n && n < NumStates))
			return n
		}
		acc := verifNondetInt("accept")
		ign := verifNondetBool("ignore")
		if ign {
			verifAssume(acc == -1)
			ActTab[st] = ActionRow{Accept: -1, Ignore: "!ignored"}
		} else {
			// 0 = INVALID (no match yet); 1 is the end-of-input type, never an accept entry
			verifAssume(acc == 0 || (2 <= acc && acc <= 7))
			ActTab[st] = ActionRow{Accept: token.Type(acc), Ignore: ""}
		}
	}
	// the start state itself is neither accepting nor ignoring
	verifAssume(ActTab[0].Accept == 0 && ActTab[0].Ignore == "")
}

func verifSource(n int) []byte {
	src := make([]byte, n)
	for i := 0; i < n; i++ {
		src[i] = verifNondetByte("src")
	}
	return src
}

// verifSpecPos is the position specification of C08: walking the decode chain from offset 0,
// line = 1 + newlines, column reset by CR/LF, +4 per tab, +1 per other character.
// It returns the (line, column) at byte offset k and whether k lies on the decode chain.
func verifSpecPos(src []byte, k int) (line, col int, onChain bool) {
	l, c, p := 1, 1, 0
	for step := 0; step <= len(src); step++ {
		if p == k {
			line, col, onChain = l, c, true
		}
		if p >= len(src) {
			break
		}
		r, size := utf8.DecodeRune(src[p:])
		switch r {
		case '\n':
			l++
			c = 1
		case '\r':
			c = 1
		case '\t':
			c += 4
		default:
			c++
		}
		p += size
	}
	return
}

// VerifC08Step: one Scan from an arbitrary reachable lexer state, arbitrary tables and source.
func VerifC08Step() {
	n := verifParam("N", 3)
	if verifParam("ABSTRACT", 1) == 1 {
		verifAbstractTables()
	}
	src := verifSource(n)
	pos := verifNondetInt("pos")
	verifAssume(0 <= pos && pos <= n)
	line, col, ok := verifSpecPos(src, pos)
	verifAssume(ok)
	l := &Lexer{src: src, pos: pos, line: line, column: col}

	tok := l.Scan()

	start := tok.Pos.Offset
	end := start + len(tok.Lit)
	verifAssert(pos <= start && start <= end && end <= n, "lexeme lies inside the unread input")
	sl, sc, sok := verifSpecPos(src, start)
	verifAssert(sok, "token starts on a character boundary")
	verifAssert(tok.Pos.Line == sl && tok.Pos.Column == sc, "token line and column are those of its first byte")
	same := true
	for i := 0; i < len(tok.Lit); i++ {
		if start+i < n && tok.Lit[i] != src[start+i] {
			same = false
		}
	}
	verifAssert(same, "literal is exactly the input bytes it covers")
	if tok.Type == token.EOF {
		verifAssert(start == n && len(tok.Lit) == 0, "end-of-input token sits at the end of the input")
		verifAssert(l.pos == n, "at end of input the lexer stays at the end")
		verifCover("eof")
	} else {
		verifAssert(l.pos == end, "the next lexeme starts where this one ends")
		verifAssert(l.pos > pos, "progress")
		verifAssert(end > start, "a token covers at least one byte")
	}
	el, ec, eok := verifSpecPos(src, l.pos)
	verifAssert(eok, "lexer stops on a character boundary")
	verifAssert(l.line == el && l.column == ec, "lexer line and column match its offset afterwards")
	if start > pos {
		verifCover("ignored text skipped")
	}
	if tok.Type == token.INVALID {
		verifCover("invalid token")
	}
	if tok.Type > token.EOF {
		verifCover("token")
	}
	verifCover("end")
}

// VerifC16Reset: after Reset a used lexer behaves like a new one on the same source.
func VerifC16Reset() {
	n := verifParam("N", 3)
	if verifParam("ABSTRACT", 1) == 1 {
		verifAbstractTables()
	}
	src := verifSource(n)
	var used *Lexer
	if verifParam("INDUCTIVE", 1) == 1 {
		// inductive form: any lexer object on src, whatever it did before
		used = &Lexer{src: src, pos: verifNondetInt("pos"), line: verifNondetInt("line"), column: verifNondetInt("col")}
	} else {
		// a real history: J earlier Scan calls on a new lexer
		used = NewLexer(src)
		j := verifParam("J", 1)
		for i := 0; i < j; i++ {
			used.Scan()
		}
	}
	used.Reset()
	fresh := NewLexer(src)
	k := verifParam("K", 2)
	for i := 0; i < k; i++ {
		a, b := used.Scan(), fresh.Scan()
		verifAssert(a.Type == b.Type, "same token type after Reset")
		verifAssert(a.Pos.Offset == b.Pos.Offset && a.Pos.Line == b.Pos.Line && a.Pos.Column == b.Pos.Column, "same position after Reset")
		same := len(a.Lit) == len(b.Lit)
		for j := 0; j < len(a.Lit) && j < len(b.Lit); j++ {
			if a.Lit[j] != b.Lit[j] {
				same = false
			}
		}
		verifAssert(same, "same literal after Reset")
	}
	verifCover("end")
}

// VerifC17Scan: NewLexer/Scan/Reset write only to objects of the instance (write tracking).
func VerifC17Scan() {
	n := verifParam("N", 3)
	if verifParam("ABSTRACT", 1) == 1 {
		verifAbstractTables()
	}
	verifTrackWrites(true)
	src := verifSource(n)
	l := NewLexer(src)
	k := verifParam("K", 2)
	for i := 0; i < k; i++ {
		l.Scan()
	}
	l.Reset()
	l.Scan()
	verifTrackWrites(false)
	verifCover("end")
}
