//go:build verif

package lexer

// Harness for C01: the generated Scan against a reference lexer that simulates /verif's own
// NFA of the lexical grammar and transcribes the property: read characters while the text is
// still a prefix of some lexeme ('.' only where no explicit alternative of the live items
// matches), skip an ignored lexeme as soon as it is complete, return the token the text
// matches (syntax-part literal first, else earliest declared), else INVALID including the
// character that made the text unmatchable; at the end of the input return end-of-input.

import (
	"unicode/utf8"

	"gen/token"
)

type verifNFATr struct {
	from   int
	lo, hi rune
	to     uint64
}

func init() {
	verifHarnesses["VerifC01Scan"] = VerifC01Scan
}

func verifMask(b bool) uint64 {
	if b {
		return ^uint64(0)
	}
	return 0
}

func verifNFAStep(live uint64, r rune) uint64 {
	var explicit uint64
	for _, t := range verifNFAChr {
		explicit |= t.to & verifMask(live>>uint(t.from)&1 == 1 && t.lo <= r && r <= t.hi)
	}
	var dots uint64
	for _, t := range verifNFADot {
		dots |= t.to & verifMask(live>>uint(t.from)&1 == 1)
	}
	if explicit != 0 {
		return explicit
	}
	return dots
}

// verifBest returns the index of the best accepting pattern of the live set, or -1.
func verifBest(live uint64) int {
	best := -1
	for p := len(verifNFAAccept) - 1; p >= 0; p-- {
		if live&verifNFAAccept[p] != 0 {
			best = p
		}
	}
	return best
}

const (
	verifKindInvalid = -1
	verifKindEOF     = -2
)

// verifRefScan: the reference lexer. Returns the pattern index (or INVALID/EOF) and the
// byte range of the lexeme.
func verifRefScan(src []byte, pos int) (kind, start, end int) {
	n := len(src)
	if pos >= n {
		return verifKindEOF, pos, pos
	}
	start = pos
	p := pos
	live := verifNFAStart
	for step := 0; step <= n+1; step++ {
		kill := 0
		if p < n {
			r, size := utf8.DecodeRune(src[p:])
			next := verifNFAStep(live, r)
			if next != 0 {
				p += size
				live = next
				if b := verifBest(live); b >= 0 && verifPatIgnored[b] {
					start, live = p, verifNFAStart
					if p >= n {
						return verifKindEOF, p, p
					}
				}
				continue
			}
			kill = size
		}
		if b := verifBest(live); b >= 0 && !verifPatIgnored[b] && p > start {
			return b, start, p
		}
		return verifKindInvalid, start, p + kill
	}
	return verifKindInvalid, start, p
}

func VerifC01Scan() {
	n := verifParam("N", 3)
	src := verifSource(n)
	pos := verifNondetInt("pos")
	verifAssume(0 <= pos && pos <= n)
	line, col, ok := verifSpecPos(src, pos)
	verifAssume(ok)
	l := &Lexer{src: src, pos: pos, line: line, column: col}

	kind, start, end := verifRefScan(src, pos)
	tok := l.Scan()

	name := token.TokMap.Id(tok.Type)
	switch {
	case kind == verifKindEOF:
		verifAssert(tok.Type == token.EOF, "end of input is reported as the end-of-input token")
		verifCover("eof")
	case kind == verifKindInvalid:
		verifAssert(tok.Type == token.INVALID, "text that matches no pattern is an INVALID token")
		verifCover("invalid")
	default:
		same := false
		for p := 0; p < len(verifPatNames); p++ {
			if kind == p && name == verifPatNames[p] {
				same = true
			}
		}
		verifAssert(same, "Scan returns the token whose pattern the text matches (literal first, then declaration order)")
		verifCover("token")
	}
	verifAssert(tok.Pos.Offset == start, "the lexeme starts where the rules say (ignored text skipped)")
	if kind != verifKindEOF {
		verifAssert(len(tok.Lit) == end-start, "the lexeme consumes exactly the text the rules say")
		verifAssert(l.pos == end, "the lexer continues right after the lexeme")
	}
	if start > pos {
		verifCover("ignored text skipped")
	}
	verifCover("end")
}
