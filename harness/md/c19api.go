//go:build verif

package md

// API-level harness for C19: GetSource on a file with arbitrary bytes (os.WriteFile /
// os.ReadFile are a tiny in-engine file table symbolically, the real file system natively).
// Positions are counted in CHARACTERS, as gocc's scanner counts columns.

import "os"

var verifHarnesses = map[string]func(){
	"VerifC19GetSource": VerifC19GetSource,
}

func VerifC19GetSource() {
	L := verifParam("L", 4)
	data := make([]byte, L)
	for i := 0; i < L; i++ {
		data[i] = verifNondetByte("data")
	}
	for i := 0; i+3 < L; i++ {
		verifAssume(!(data[i] == '`' && data[i+1] == '`' && data[i+2] == '`' && data[i+3] == '`'))
	}
	path := "/tmp/verif_c19_input_" + string(rune('a'+L)) + ".md"
	verifAssume(os.WriteFile(path, data, 0o644) == nil)
	out, err := GetSource(path)
	os.Remove(path)
	verifAssert(err == nil, "GetSource succeeds on a readable file")
	in := []rune(string(data))
	res := []rune(out)
	n := len(in)
	verifAssert(len(res) == n, "as many characters as the markdown file (positions preserved)")
	fences := 0
	for i := 0; i < n && i < len(res); i++ {
		start := func(k int) bool {
			return k >= 0 && k+2 < n && in[k] == '`' && in[k+1] == '`' && in[k+2] == '`' && (k == 0 || in[k-1] != '`')
		}
		inFence := start(i) || start(i-1) || start(i-2)
		if start(i - 3) {
			fences++
		}
		code := fences%2 == 1
		switch {
		case inFence:
			verifAssert(res[i] == ' ', "fence characters are blanked")
		case code:
			verifAssert(res[i] == in[i], "code is kept at its character position")
		case in[i] == '\n':
			verifAssert(res[i] == '\n', "newlines in prose are kept")
		default:
			verifAssert(res[i] == ' ', "a prose character becomes exactly one blank")
		}
	}
	if n < L {
		verifCover("multi-byte character")
	}
	verifCover("end")
}
