//go:build verif

package md

// Harness for C19: markdown input is equivalent to its fenced code, positions preserved.

func init() {
	verifHarnesses["VerifC19LoadMd"] = VerifC19LoadMd
}

// VerifC19LoadMd runs loadMd on an arbitrary rune slice of length L in which no run of four or
// more backticks occurs (the property's domain: bare ``` fences, none inside prose or code),
// and compares every position with a position-wise specification.
func VerifC19LoadMd() {
	L := verifParam("L", 6)
	in := make([]rune, L)
	for i := 0; i < L; i++ {
		in[i] = verifNondetRune("in")
	}
	for i := 0; i+3 < L; i++ {
		verifAssume(!(in[i] == '`' && in[i+1] == '`' && in[i+2] == '`' && in[i+3] == '`'))
	}
	buf := make([]rune, L)
	copy(buf, in)

	loadMd(buf)

	verifAssert(len(buf) == L, "length unchanged")
	// specification: a fence starts at i iff in[i..i+2] are backticks and in[i-1] is not
	fences := 0 // fences completed before position i
	for i := 0; i < L; i++ {
		start := func(k int) bool {
			return k >= 0 && k+2 < L && in[k] == '`' && in[k+1] == '`' && in[k+2] == '`' && (k == 0 || in[k-1] != '`')
		}
		inFence := start(i) || start(i-1) || start(i-2)
		if start(i - 3) {
			fences++
		}
		code := fences%2 == 1
		switch {
		case inFence:
			verifAssert(buf[i] == ' ', "fence characters are blanked")
		case code:
			verifAssert(buf[i] == in[i], "code is kept at its position")
		case in[i] == '\n':
			verifAssert(buf[i] == '\n', "newlines in prose are kept")
		default:
			verifAssert(buf[i] == ' ', "prose is blanked")
		}
		if L >= 7 && inFence && code {
			verifCover("closing fence")
		}
		if L >= 4 && code && !inFence {
			verifCover("code position")
		}
	}
	verifCover("end")
}
