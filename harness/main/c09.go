//go:build verif

package main

import (
	"flag"
	"os"
	"path/filepath"

	"github.com/goccmack/gocc/internal/ast"
	"github.com/goccmack/gocc/internal/config"
	lexItems "github.com/goccmack/gocc/internal/lexer/items"
	lr1Items "github.com/goccmack/gocc/internal/parser/lr1/items"
	"github.com/goccmack/gocc/internal/parser/symbols"
	outToken "github.com/goccmack/gocc/internal/token"
)

// Pipeline harness for C09: the real main() on a well-formed, conflict-free grammar file (one
// of verifC09Grammars, written by /verif on every run) with all boolean flags symbolic
// terminates (unwinding assertions of every loop) and, when it returns normally (= exit status
// zero), has produced every package the configuration calls for: token and util always, lexer
// unless -no_lexer, parser and errors iff the grammar has a syntax part. It never exits early.
// In the symbolic engine the four generators are replaced by stubs that record the call;
// natively the real generators run in a temporary directory and the directories are inspected.

func init() {
	verifHarnesses["VerifC09Main"] = VerifC09Main
}

type verifC09Grammar struct {
	name      string
	hasSyntax bool
	src       string
	ill       bool
}

var verifGenCalls int
var verifC09Ill bool

func verifGenLexerRec(pkg, outDir string, header string, itemsets *lexItems.ItemSets, tokMap *outToken.TokenMap, cfg config.Config) {
	verifGenCalls |= 1
}

func verifGenParserRec(pkg, outDir, header string, prods ast.SyntaxProdList, syms *symbols.Symbols,
	itemsets *lr1Items.ItemSets, tokMap *outToken.TokenMap, cfg config.Config) map[int]lr1Items.RowConflicts {
	verifGenCalls |= 2
	return nil
}

func verifGenTokenRec(pkg, outDir string, tokMap *outToken.TokenMap) { verifGenCalls |= 4 }

func verifGenUtilRec(outDir string) { verifGenCalls |= 8 }

func verifIsDir(p string) bool {
	st, err := os.Stat(p)
	return err == nil && st.IsDir()
}

func VerifC09Main() {
	gr := verifC09Grammars[verifParam("ONLY", 0)]
	verifFlags = verifCfg{
		auto:        verifNondetBool("a"),
		verbose:     verifNondetBool("v"),
		zip:         verifNondetBool("zip"),
		unreachable: verifNondetBool("u"),
		noLexer:     verifNondetBool("no_lexer"),
		debugLexer:  verifNondetBool("debug_lexer"),
		debugParser: verifNondetBool("debug_parser"),
	}
	verifAssume(!(verifFlags.noLexer && verifFlags.debugLexer)) // refused by the flag parser
	verifGenCalls = 0
	verifC09Ill = gr.ill
	got := 0
	if verifSymbolic() {
		os.WriteFile("g.bnf", []byte(gr.src), 0o644)
		main()
		got = verifGenCalls
	} else {
		dir, err := os.MkdirTemp("", "c09main")
		if err != nil {
			panic(err)
		}
		defer os.RemoveAll(dir)
		os.WriteFile(filepath.Join(dir, "go.mod"), []byte("module c09main\n"), 0o644)
		os.WriteFile(filepath.Join(dir, "g.bnf"), []byte(gr.src), 0o644)
		wd, _ := os.Getwd()
		defer os.Chdir(wd)
		if err := os.Chdir(dir); err != nil {
			panic(err)
		}
		args := []string{"gocc"}
		for _, f := range []struct {
			on   bool
			name string
		}{{verifFlags.auto, "-a"}, {verifFlags.verbose, "-v"}, {verifFlags.zip, "-zip"}, {verifFlags.unreachable, "-u"},
			{verifFlags.noLexer, "-no_lexer"}, {verifFlags.debugLexer, "-debug_lexer"}, {verifFlags.debugParser, "-debug_parser"}} {
			if f.on {
				args = append(args, f.name)
			}
		}
		os.Args = append(args, "g.bnf")
		flag.CommandLine = flag.NewFlagSet("gocc", flag.ExitOnError)
		main()
		if verifIsDir(filepath.Join(dir, "lexer")) {
			got |= 1
		}
		if verifIsDir(filepath.Join(dir, "parser")) && verifIsDir(filepath.Join(dir, "errors")) {
			got |= 2
		}
		if verifIsDir(filepath.Join(dir, "token")) {
			got |= 4
		}
		if verifIsDir(filepath.Join(dir, "util")) {
			got |= 8
		}
	}
	verifAssert(got&4 != 0 && got&8 != 0, "the token and util packages are always written")
	verifAssert((got&1 != 0) == !verifFlags.noLexer, "the lexer package is written unless -no_lexer is given")
	verifAssert((got&2 != 0) == gr.hasSyntax, "the parser and errors packages are written iff the grammar has a syntax part")
	verifCover("generation completed")
}
