//go:build verif

package main

import (
	"flag"
	"os"
	"path/filepath"
)

// Pipeline harness for C04: the real main() on one grammar of a list that /verif writes on
// every run (verifC04Grammars: source text, the conflict verdict of /verif's reference
// canonical LR(1) construction, and whether accepting competes with a reduction), with all
// boolean flags symbolic. main() returns normally (exit status 0) iff the grammar has no
// conflict or -a is given (and accept is not in conflict); otherwise it reaches os.Exit with a
// non-zero status (conflicts, no -a) or panics (accept conflict). In the symbolic engine the
// template rendering and file writing of the generators are stubbed; FIRST sets, LR(1) item
// sets, the action-table rows with their conflict lists and handleConflicts are the real code.

func init() {
	verifHarnesses["VerifC04Main"] = VerifC04Main
}

type verifC04Grammar struct {
	name           string
	conflict       bool
	acceptConflict bool
	src            string
}

var verifC04Conflict, verifC04Auto, verifC04AcceptConflict bool

func VerifC04Main() {
	only := verifParam("ONLY", 0)
	gr := verifC04Grammars[only]
	verifFlags = verifCfg{
		auto:        verifNondetBool("a"),
		verbose:     verifNondetBool("v"),
		zip:         verifNondetBool("zip"),
		unreachable: verifNondetBool("u"),
		noLexer:     verifNondetBool("no_lexer"),
		debugLexer:  verifNondetBool("debug_lexer"),
		debugParser: verifNondetBool("debug_parser"),
	}
	verifAssume(!(verifFlags.noLexer && verifFlags.debugLexer)) // refused by the flag parser
	verifC04Conflict, verifC04Auto, verifC04AcceptConflict = gr.conflict, verifFlags.auto, gr.acceptConflict
	if verifSymbolic() {
		os.WriteFile("g.bnf", []byte(gr.src), 0o644)
	} else {
		dir, err := os.MkdirTemp("", "c04main")
		if err != nil {
			panic(err)
		}
		defer os.RemoveAll(dir)
		os.WriteFile(filepath.Join(dir, "go.mod"), []byte("module c04main\n"), 0o644)
		os.WriteFile(filepath.Join(dir, "g.bnf"), []byte(gr.src), 0o644)
		wd, _ := os.Getwd()
		defer os.Chdir(wd)
		if err := os.Chdir(dir); err != nil {
			panic(err)
		}
		args := []string{"gocc"}
		for _, f := range []struct {
			on   bool
			name string
		}{{verifFlags.auto, "-a"}, {verifFlags.verbose, "-v"}, {verifFlags.zip, "-zip"}, {verifFlags.unreachable, "-u"},
			{verifFlags.noLexer, "-no_lexer"}, {verifFlags.debugLexer, "-debug_lexer"}, {verifFlags.debugParser, "-debug_parser"}} {
			if f.on {
				args = append(args, f.name)
			}
		}
		os.Args = append(args, "g.bnf")
		flag.CommandLine = flag.NewFlagSet("gocc", flag.ExitOnError)
	}
	main()
	verifAssert(!gr.acceptConflict, "a conflict between accepting and a reduction is refused in both modes")
	verifAssert(!gr.conflict || verifFlags.auto, "a grammar with LR(1) conflicts completes with status zero only under -a")
	verifCover("generation completed")
}
