//go:build verif

package main

import (
	"errors"
	"flag"
	"os"
	"path/filepath"

	"github.com/goccmack/gocc/internal/ast"
	"github.com/goccmack/gocc/internal/config"
	lr1Items "github.com/goccmack/gocc/internal/parser/lr1/items"
	"github.com/goccmack/gocc/internal/parser/symbols"
	outToken "github.com/goccmack/gocc/internal/token"
)

// verifGenParser stands in for the parser generator in the symbolic engine: no files, no conflicts.
func verifGenParser(pkg, outDir, header string, prods ast.SyntaxProdList, syms *symbols.Symbols,
	itemsets *lr1Items.ItemSets, tokMap *outToken.TokenMap, cfg config.Config) map[int]lr1Items.RowConflicts {
	return nil
}

// Pipeline harness for C14: the real main() on a small grammar file with every boolean flag
// symbolic. Which of the grammar files below is read is symbolic too; only the first is
// well-formed. main() may return normally (= exit status 0) only for that one; for the others
// it must reach os.Exit with a non-zero status or panic (exit status 2).
//
// In the symbolic engine config.New is redirected to verifConfigNew (flags as arbitrary
// booleans seen through the config.Config interface), the source file lives in the engine's
// file table, and the four code generators and the -v dump writers are replaced by stubs that
// write nothing. Natively the real config.New parses os.Args and everything is written into a
// temporary directory.

func init() {
	verifHarnesses["VerifC14Main"] = VerifC14Main
}

type verifC14Grammar struct {
	what string
	ok   bool
	src  string
}

const verifC14Lex = "_d : '0'-'9' ;\n_l : 'a'-'z' ;\nid : _l { _l | _d } ;\n!ws : ' ' | '\\n' ;\n"
const verifC14Syn = "S : id | S \"+\" id ;\n"

var verifC14Grammars = []verifC14Grammar{
	{"well-formed", true, verifC14Lex + verifC14Syn},
	{"undefined regular definition in a token", false, "_d : '0'-'9' ;\n_l : 'a'-'z' ;\nid : _l { _l | _x } ;\n!ws : ' ' | '\\n' ;\n" + verifC14Syn},
	{"undefined regular definition in an ignored token", false, "_d : '0'-'9' ;\n_l : 'a'-'z' ;\nid : _l { _l | _d } ;\n!ws : ' ' | _nl ;\n" + verifC14Syn},
	{"undefined regular definition inside a regular definition", false, "_d : _dig ;\n_l : 'a'-'z' ;\nid : _l { _l | _d } ;\n!ws : ' ' | '\\n' ;\n" + verifC14Syn},
	{"undefined regular definition, lexical part only", false, "_l : 'a'-'z' ;\nid : _l { _l | _d } ;\n"},
	{"undefined syntax production", false, verifC14Lex + "S : id | T \"+\" id ;\n"},
	{"token defined twice", false, verifC14Lex + "id : 'x' ;\n" + verifC14Syn},
	{"regular definition defined twice", false, verifC14Lex + "_d : '7' ;\n" + verifC14Syn},
	{"ignored token defined twice", false, verifC14Lex + "!ws : '\\t' ;\n" + verifC14Syn},
	{"alternative left empty", false, verifC14Lex + "S : id | ;\n"},
	{"missing semicolon", false, verifC14Lex + "S : id | S \"+\" id\n"},
	{"stray colon", false, verifC14Lex + "S : : id ;\n"},
	{"character outside the token alphabet", false, verifC14Lex + "S : id # S ;\n"},
}

var verifFlags verifCfg
var verifIllFormed bool

func verifConfigNew() (config.Config, error) {
	if verifFlags.noLexer && verifFlags.debugLexer {
		return nil, errors.New("no_lexer and debug_lexer cannot both be set")
	}
	return verifFlags, nil
}

func VerifC14Main() {
	v := verifNondetInt("grammar")
	verifAssume(0 <= v && v < len(verifC14Grammars))
	pick := 0
	for i := range verifC14Grammars { // concretise
		if v == i {
			pick = i
		}
	}
	only := verifParam("ONLY", -1)
	verifAssume(only < 0 || pick == only)
	gr := verifC14Grammars[pick]
	verifIllFormed = !gr.ok
	verifFlags = verifCfg{
		auto:        verifNondetBool("a"),
		verbose:     verifNondetBool("v"),
		zip:         verifNondetBool("zip"),
		unreachable: verifNondetBool("u"),
		noLexer:     verifNondetBool("no_lexer"),
		debugLexer:  verifNondetBool("debug_lexer"),
		debugParser: verifNondetBool("debug_parser"),
	}
	if verifSymbolic() {
		os.WriteFile("g.bnf", []byte(gr.src), 0o644)
	} else {
		dir, err := os.MkdirTemp("", "c14main")
		if err != nil {
			panic(err)
		}
		defer os.RemoveAll(dir)
		os.WriteFile(filepath.Join(dir, "go.mod"), []byte("module c14main\n"), 0o644)
		os.WriteFile(filepath.Join(dir, "g.bnf"), []byte(gr.src), 0o644)
		wd, _ := os.Getwd()
		defer os.Chdir(wd)
		if err := os.Chdir(dir); err != nil {
			panic(err)
		}
		args := []string{"gocc"}
		for _, f := range []struct {
			on   bool
			name string
		}{{verifFlags.auto, "-a"}, {verifFlags.verbose, "-v"}, {verifFlags.zip, "-zip"}, {verifFlags.unreachable, "-u"},
			{verifFlags.noLexer, "-no_lexer"}, {verifFlags.debugLexer, "-debug_lexer"}, {verifFlags.debugParser, "-debug_parser"}} {
			if f.on {
				args = append(args, f.name)
			}
		}
		os.Args = append(args, "g.bnf")
		flag.CommandLine = flag.NewFlagSet("gocc", flag.ExitOnError)
	}
	main()
	verifAssert(gr.ok, "gocc finishes with exit status zero only on a well-formed grammar")
	verifCover("well-formed grammar: generation completed")
}
