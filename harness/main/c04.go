//go:build verif

package main

import (
	lr1Items "github.com/goccmack/gocc/internal/parser/lr1/items"
)

// Kernel harness for C04: handleConflicts exits with status 1 iff conflicts were found and -a
// is off. os.Exit is intercepted by the engine: it asserts verifExpectExit and a non-zero code.

var verifHarnesses = map[string]func(){
	"VerifHandleConflicts": VerifHandleConflicts,
}

var verifExpectExit bool

type verifCfg struct {
	auto, verbose, zip, unreachable, noLexer, debugLexer, debugParser bool
}

func (c verifCfg) Help() bool              { return false }
func (c verifCfg) Verbose() bool           { return c.verbose }
func (c verifCfg) Zip() bool               { return c.zip }
func (c verifCfg) AllowUnreachable() bool  { return c.unreachable }
func (c verifCfg) AutoResolveLRConf() bool { return c.auto }
func (c verifCfg) SourceFile() string      { return "g.bnf" }
func (c verifCfg) OutDir() string          { return "." }
func (c verifCfg) NoLexer() bool           { return c.noLexer }
func (c verifCfg) DebugLexer() bool        { return c.debugLexer }
func (c verifCfg) DebugParser() bool       { return c.debugParser }
func (c verifCfg) ErrorsDir() string       { return "" }
func (c verifCfg) ParserDir() string       { return "" }
func (c verifCfg) ScannerDir() string      { return "" }
func (c verifCfg) TokenDir() string        { return "" }
func (c verifCfg) ProjectName() string     { return "" }
func (c verifCfg) Package() string         { return "" }
func (c verifCfg) PrintParams()            {}

func VerifHandleConflicts() {
	nconf := verifParam("NCONF", 1)
	auto := verifNondetBool("auto")
	conflicts := map[int]lr1Items.RowConflicts{}
	for i := 0; i < nconf; i++ {
		conflicts[i] = lr1Items.RowConflicts{}
	}
	verifExpectExit = nconf > 0 && !auto
	handleConflicts(conflicts, 4, verifCfg{auto: auto}, nil)
	verifAssert(!verifExpectExit, "generation continues only without conflicts or with -a")
	verifCover("returned")
}
