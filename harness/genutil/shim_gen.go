//go:build verif

package util

// the function under test in the GENERATED util package
func verifRune(lit []byte) rune { return RuneValue(lit) }
