//go:build verif

package util

import (
	"strconv"
	"unicode/utf8"
)

// Harnesses for C20: literal conversion helpers agree with Go's own literal semantics.

var verifHarnesses = map[string]func(){
	"VerifC20LitToRune": VerifC20LitToRune,
	"VerifC20IntValue":  VerifC20IntValue,
}

// VerifC20LitToRune: for every valid Go rune literal of L bytes LitToRune returns the value
// strconv.UnquoteChar assigns to it (both executed symbolically), without panicking.
func VerifC20LitToRune() {
	L := verifParam("L", 3)
	lit := make([]byte, L)
	for i := 0; i < L; i++ {
		lit[i] = verifNondetByte("lit")
	}
	verifAssume(lit[0] == '\'' && lit[L-1] == '\'')
	body := string(lit[1 : L-1])
	want, _, tail, err := strconv.UnquoteChar(body, '\'')
	verifAssume(err == nil && tail == "")
	// UnquoteChar tolerates ill-formed UTF-8 and a raw newline; Go's rune literals do not
	if body[0] != '\\' {
		r, size := utf8.DecodeRuneInString(body)
		verifAssume(!(r == utf8.RuneError && size == 1))
		verifAssume(r != '\n')
	}
	got := verifRune(lit)
	verifAssert(got == want, "LitToRune returns Go's value of the literal")
	if L == 12 && body[0] == '\\' && body[1] == 'U' {
		verifCover("\\U escape")
	}
	if L == 6 && body[0] == '\\' && body[1] >= '0' && body[1] <= '7' {
		verifCover("octal escape")
	}
	if L == 6 && body[0] >= 0xF0 {
		verifCover("four-byte character")
	}
	verifCover("end")
}

// VerifC20IntValue: IntValue/UintValue return exactly what strconv returns for the same text.
func VerifC20IntValue() {
	L := verifParam("L", 3)
	lit := make([]byte, L)
	for i := 0; i < L; i++ {
		lit[i] = verifNondetByte("lit")
	}
	v, err := IntValue(lit)
	wv, werr := strconv.ParseInt(string(lit), 10, 64)
	verifAssert(v == wv && (err == nil) == (werr == nil), "IntValue is strconv.ParseInt(text, 10, 64)")
	u, uerr := UintValue(lit)
	wu, wuerr := strconv.ParseUint(string(lit), 10, 64)
	verifAssert(u == wu && (uerr == nil) == (wuerr == nil), "UintValue is strconv.ParseUint(text, 10, 64)")
	verifCover("end")
}
