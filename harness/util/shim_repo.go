//go:build verif

package util

// the function under test in gocc's own util package
func verifRune(lit []byte) rune { return LitToRune(lit) }
