//go:build verif

package golang

import (
	"bytes"
	"os"
	"path/filepath"
	"sort"

	"github.com/goccmack/gocc/internal/ast"
	"github.com/goccmack/gocc/internal/config"
	"github.com/goccmack/gocc/internal/frontend/parser"
	"github.com/goccmack/gocc/internal/frontend/scanner"
	"github.com/goccmack/gocc/internal/frontend/token"
	lexItems "github.com/goccmack/gocc/internal/lexer/items"
	"github.com/goccmack/gocc/internal/parser/symbols"
	outToken "github.com/goccmack/gocc/internal/token"
)

// Harness for C11 at the level of the lexer table writers (genLexer, genTransitionTable,
// genActionTable): same device as the parser table writers (harness/pargen/c11.go).

var verifHarnesses = map[string]func(){
	"VerifC11LexWriters": VerifC11LexWriters,
}

const verifC11Grammar = "_d : '0'-'9' ;\nid : 'a'-'z' { 'a'-'z' | _d } ;\nnum : _d { _d } ;\n!ws : ' ' | '\\n' ;\nS : S \"+\" T | T ;\nT : id | num | \"(\" S \")\" ;\n"

type verifC11Cfg struct{ debug bool }

func (c verifC11Cfg) Help() bool              { return false }
func (c verifC11Cfg) Verbose() bool           { return false }
func (c verifC11Cfg) Zip() bool               { return false }
func (c verifC11Cfg) AllowUnreachable() bool  { return false }
func (c verifC11Cfg) AutoResolveLRConf() bool { return false }
func (c verifC11Cfg) SourceFile() string      { return "g.bnf" }
func (c verifC11Cfg) OutDir() string          { return "." }
func (c verifC11Cfg) NoLexer() bool           { return false }
func (c verifC11Cfg) DebugLexer() bool        { return c.debug }
func (c verifC11Cfg) DebugParser() bool       { return false }
func (c verifC11Cfg) ErrorsDir() string       { return "errors" }
func (c verifC11Cfg) ParserDir() string       { return "parser" }
func (c verifC11Cfg) ScannerDir() string      { return "scanner" }
func (c verifC11Cfg) TokenDir() string        { return "token" }
func (c verifC11Cfg) ProjectName() string     { return "x" }
func (c verifC11Cfg) Package() string         { return "x" }
func (c verifC11Cfg) PrintParams()            {}

var _ config.Config = verifC11Cfg{}

var verifRecs [2][]interface{}
var verifRecRun int

func verifRecordExecute(data interface{}) {
	verifRecs[verifRecRun] = append(verifRecs[verifRecRun], data)
}

func verifReadAll(dir string) []byte {
	var names []string
	filepath.Walk(dir, func(p string, info os.FileInfo, err error) error {
		if err == nil && !info.IsDir() {
			names = append(names, p)
		}
		return nil
	})
	sort.Strings(names)
	var b bytes.Buffer
	for _, n := range names {
		c, _ := os.ReadFile(n)
		b.WriteString(n[len(dir):])
		b.WriteByte(0)
		b.Write(c)
		b.WriteByte(0)
	}
	return b.Bytes()
}

func VerifC11LexWriters() {
	cfg := verifC11Cfg{debug: verifParam("DEBUG", 0) != 0}
	s := &scanner.Scanner{}
	s.Init([]byte(verifC11Grammar), token.FRONTENDTokens)
	p := parser.NewParser(parser.ActionTable, parser.GotoTable, parser.ProductionsTable, token.FRONTENDTokens)
	gr, err := p.Parse(s)
	if err != nil {
		panic("harness grammar does not parse")
	}
	g := gr.(*ast.Grammar)
	syms := symbols.NewSymbols(g)
	syms.Add(g.LexPart.TokenIds()...)
	g.LexPart.UpdateStringLitTokens(syms.ListStringLitSymbols())
	sets := lexItems.GetItemSets(g.LexPart)
	tokMap := outToken.NewTokenMap(syms.ListTerminals())
	if verifSymbolic() {
		verifRecRun = 0
		Gen("x", "out", g.LexPart.Header.SDTLit, sets, tokMap, cfg)
		verifMapOrderOne(true)
		verifRecRun = 1
		Gen("x", "out", g.LexPart.Header.SDTLit, sets, tokMap, cfg)
		verifMapOrderOne(false)
		verifAssert(len(verifRecs[0]) == len(verifRecs[1]) && len(verifRecs[0]) >= 3, "both runs hand over the same number of data sets")
		for i := 0; i < len(verifRecs[0]) && i < len(verifRecs[1]); i++ {
			verifAssert(verifDeepEqual(verifRecs[0][i], verifRecs[1][i]), "the data handed to the templates does not depend on the order in which a map is visited")
		}
	} else {
		var first []byte
		for r := 0; r < verifParam("REPEAT", 2); r++ {
			dir, err := os.MkdirTemp("", "c11lexwriters")
			if err != nil {
				panic(err)
			}
			Gen("x", dir, g.LexPart.Header.SDTLit, sets, tokMap, cfg)
			b := verifReadAll(dir)
			os.RemoveAll(dir)
			if r == 0 {
				first = b
			}
			verifAssert(bytes.Equal(first, b), "the data handed to the templates does not depend on the order in which a map is visited")
		}
	}
	verifCover("end")
}
