//go:build verif

package scanner

// Harnesses for C13 (scanner/literal level): the token sequence gocc's own scanner produces
// does not depend on layout, and the two quoting styles of a string literal give the same value.

import (
	"github.com/goccmack/gocc/internal/ast"
	"github.com/goccmack/gocc/internal/frontend/token"
	"github.com/goccmack/gocc/internal/util"
)

var verifHarnesses = map[string]func(){
	"VerifC13Layout":      VerifC13Layout,
	"VerifC13Quoting":     VerifC13Quoting,
	"VerifC13CharLit":     VerifC13CharLit,
	"VerifC13CharLitWide": VerifC13CharLitWide,
	"VerifC13Trailing":    VerifC13Trailing,
}

// verifIsLayout recognises (white space | // ... newline | /* ... */)* over s completely.
func verifIsLayout(s []byte) bool {
	const (
		plain = iota
		slash
		line
		block
		blockStar
	)
	st := plain
	ok := true
	for i := 0; i < len(s); i++ {
		c := s[i]
		switch st {
		case plain:
			if c == '/' {
				st = slash
			} else if !(c == ' ' || c == '\t' || c == '\n' || c == '\r') {
				ok = false
			}
		case slash:
			if c == '/' {
				st = line
			} else if c == '*' {
				st = block
			} else {
				ok = false
			}
		case line:
			if c == '\n' {
				st = plain
			}
		case block:
			if c == '*' {
				st = blockStar
			}
		case blockStar:
			if c == '/' {
				st = plain
			} else if c != '*' {
				st = block
			}
		}
	}
	if verifLayoutAtEOF {
		// at the end of the file a line comment needs no newline
		return ok && (st == plain || st == line)
	}
	return ok && st == plain
}

var verifLayoutAtEOF bool

// VerifC13Trailing: layout after the last token, up to the end of the file (a final line
// comment may lack its newline), is invisible: t1 ++ layout scans like t1.
func VerifC13Trailing() {
	n1, nl := verifParam("T1", 1), verifParam("L", 2)
	k := verifParam("K", 3)
	t1, lay := make([]byte, n1), make([]byte, nl)
	for i := 0; i < n1; i++ {
		t1[i] = verifNondetByte("t1")
	}
	for i := 0; i < nl; i++ {
		lay[i] = verifNondetByte("lay")
	}
	verifAssume(verifASCII(t1) && verifASCII(lay))
	verifLayoutAtEOF = true
	okLay := verifIsLayout(lay)
	verifLayoutAtEOF = false
	verifAssume(okLay)
	for i := 0; i < n1; i++ {
		c := t1[i]
		verifAssume(c != '"' && c != '\'' && c != '`' && c != '/' && c != '<' && c != '\\')
	}
	a := make([]byte, 0, n1+nl)
	a = append(append(a, t1...), lay...)
	ta, tb := verifScanAll(a, k), verifScanAll(t1, k)
	verifAssert(verifSameToks(ta, tb), "layout at the end of the file does not change the token sequence")
	verifCover("end")
}

func verifASCII(b []byte) bool {
	ok := true
	for i := 0; i < len(b); i++ {
		if b[i] >= 0x80 || b[i] == 0 {
			ok = false
		}
	}
	return ok
}

type verifTok struct {
	typ token.Type
	lit []byte
}

func verifScanAll(src []byte, k int) []verifTok {
	var s Scanner
	s.Init(src, token.FRONTENDTokens)
	out := make([]verifTok, 0, k)
	for i := 0; i < k; i++ {
		t, _ := s.Scan()
		out = append(out, verifTok{t.Type, t.Lit})
	}
	return out
}

func verifSameToks(a, b []verifTok) bool {
	same := len(a) == len(b)
	for i := 0; i < len(a) && i < len(b); i++ {
		if a[i].typ != b[i].typ || len(a[i].lit) != len(b[i].lit) {
			same = false
		}
		for j := 0; j < len(a[i].lit) && j < len(b[i].lit); j++ {
			if a[i].lit[j] != b[i].lit[j] {
				same = false
			}
		}
	}
	return same
}

// VerifC13Layout: t1 ++ layout ++ t2 scans to the same (type, text) sequence as t1 ++ " " ++ t2
// for every non-empty layout (so any two layouts are interchangeable), and leading layout is
// invisible (T1 = 0 compares layout ++ t2 with " " ++ t2 and, through K tokens, with t2).
func VerifC13Layout() {
	n1, nl, n2 := verifParam("T1", 1), verifParam("L", 2), verifParam("T2", 1)
	k := verifParam("K", 3)
	t1, lay, t2 := make([]byte, n1), make([]byte, nl), make([]byte, n2)
	for i := 0; i < n1; i++ {
		t1[i] = verifNondetByte("t1")
	}
	for i := 0; i < nl; i++ {
		lay[i] = verifNondetByte("lay")
	}
	for i := 0; i < n2; i++ {
		t2[i] = verifNondetByte("t2")
	}
	verifAssume(verifASCII(t1) && verifASCII(lay) && verifASCII(t2))
	verifAssume(verifIsLayout(lay))
	// t1 must not end inside something that swallows layout (an open string, char literal,
	// comment or action): require that t1 ++ " " and t1 ++ "\n" agree and that t1 has no quote
	// characters, '/' or '<' (the property is about layout BETWEEN tokens)
	for i := 0; i < n1; i++ {
		c := t1[i]
		verifAssume(c != '"' && c != '\'' && c != '`' && c != '/' && c != '<' && c != '\\')
	}
	if n2 > 0 {
		// the text after the layout must not itself start a comment together with a trailing '/'
		verifAssume(true)
	}
	a := make([]byte, 0, n1+nl+n2)
	a = append(append(append(a, t1...), lay...), t2...)
	b := make([]byte, 0, n1+1+n2)
	b = append(append(append(b, t1...), ' '), t2...)
	ta, tb := verifScanAll(a, k), verifScanAll(b, k)
	verifAssert(verifSameToks(ta, tb), "layout between tokens does not change the token sequence")
	if n1 == 0 {
		tc := verifScanAll(t2, k)
		verifAssert(verifSameToks(ta, tc), "leading layout does not change the token sequence")
	}
	verifCover("end")
}

// VerifC13Quoting: "c" and `c` (content without quotes, backslash or newline) are one
// string_lit token each and have the same value.
func VerifC13Quoting() {
	m := verifParam("M", 2)
	c := make([]byte, m)
	for i := 0; i < m; i++ {
		c[i] = verifNondetByte("c")
		verifAssume(c[i] != '"' && c[i] != '`' && c[i] != '\\' && c[i] != '\n' && c[i] != 0 && c[i] < 0x80)
	}
	s1 := append(append([]byte{'"'}, c...), '"')
	s2 := append(append([]byte{'`'}, c...), '`')
	var a, b Scanner
	a.Init(s1, token.FRONTENDTokens)
	b.Init(s2, token.FRONTENDTokens)
	ta, _ := a.Scan()
	tb, _ := b.Scan()
	strLit := token.FRONTENDTokens.Type("string_lit")
	verifAssert(ta.Type == strLit && tb.Type == strLit, "both spellings are string literals")
	verifAssert(len(ta.Lit) == m+2 && len(tb.Lit) == m+2, "each spelling is one token covering the whole text")
	verifAssert(a.ErrorCount == 0 && b.ErrorCount == 0, "no scanner error")
	va, _ := ast.NewStringLit(ta)
	vb, _ := ast.NewStringLit(tb)
	verifAssert(va.SymbolString() == vb.SymbolString(), "both quoting styles denote the same terminal")
	ea, _ := a.Scan()
	eb, _ := b.Scan()
	verifAssert(ea.Type == token.EOF && eb.Type == token.EOF, "nothing follows the literal")
	verifCover("end")
}

// VerifC13CharLit: a valid rune literal is read by gocc's scanner as one char_lit token
// covering the whole literal, without error; two spellings that Go gives the same value get
// the same value from LitToRune (C20 proves LitToRune is Go's value; here: \x41-style versus
// the literal character for ASCII).
func VerifC13CharLit() {
	ch := verifNondetByte("ch")
	verifAssume(ch >= 0x20 && ch < 0x7f && ch != '\'' && ch != '\\')
	hex := func(d byte) byte {
		if d < 10 {
			return '0' + d
		}
		return 'a' + d - 10
	}
	lits := [][]byte{
		{'\'', ch, '\''},
		{'\'', '\\', 'x', hex(ch >> 4), hex(ch & 15), '\''},
		{'\'', '\\', '0' + ch>>6, '0' + (ch>>3)&7, '0' + ch&7, '\''},
		{'\'', '\\', 'u', '0', '0', hex(ch >> 4), hex(ch & 15), '\''},
		{'\'', '\\', 'U', '0', '0', '0', '0', '0', '0', hex(ch >> 4), hex(ch & 15), '\''},
	}
	charLit := token.FRONTENDTokens.Type("char_lit")
	first := ""
	for i := 0; i < len(lits); i++ {
		var s Scanner
		s.Init(lits[i], token.FRONTENDTokens)
		t, _ := s.Scan()
		verifAssert(t.Type == charLit && len(t.Lit) == len(lits[i]) && s.ErrorCount == 0, "every spelling is one char_lit token without error")
		verifAssert(util.LitToRune(t.Lit) == rune(ch), "every spelling denotes the same code point")
		cl, _ := ast.NewLexCharLit(t)
		if i == 0 {
			first = cl.String()
		}
		verifAssert(cl.Val == rune(ch) && cl.String() == first, "every spelling yields the same character-literal node: value and printed form (the form items, classes and generated comments are keyed by)")
	}
	verifCover("end")
}

// VerifC13CharLitWide: the same for code points beyond ASCII. RANGE 0: U+0080..U+00FF (raw
// two-byte UTF-8, \xhh, \ooo, \u00hh, \U000000hh); RANGE 1: U+0100..U+FFFF without the
// surrogates (raw UTF-8 of two or three bytes, \uhhhh, \U0000hhhh).
func VerifC13CharLitWide() {
	hex := func(d rune) byte {
		d &= 15
		if d < 10 {
			return '0' + byte(d)
		}
		return 'a' + byte(d) - 10
	}
	cp := verifNondetRune("cp")
	var lits [][]byte
	if verifParam("RANGE", 0) == 0 {
		verifAssume(cp >= 0x80 && cp <= 0xff)
		lits = [][]byte{
			{'\'', 0xc0 | byte(cp>>6), 0x80 | byte(cp&0x3f), '\''},
			{'\'', '\\', 'x', hex(cp >> 4), hex(cp), '\''},
			{'\'', '\\', '0' + byte(cp>>6), '0' + byte(cp>>3)&7, '0' + byte(cp)&7, '\''},
			{'\'', '\\', 'u', '0', '0', hex(cp >> 4), hex(cp), '\''},
			{'\'', '\\', 'U', '0', '0', '0', '0', '0', '0', hex(cp >> 4), hex(cp), '\''},
		}
	} else {
		verifAssume(cp >= 0x100 && cp <= 0xffff && !(cp >= 0xd800 && cp <= 0xdfff))
		raw := []byte{'\'', 0xc0 | byte(cp>>6), 0x80 | byte(cp&0x3f), '\''}
		if cp >= 0x800 {
			raw = []byte{'\'', 0xe0 | byte(cp>>12), 0x80 | byte((cp>>6)&0x3f), 0x80 | byte(cp&0x3f), '\''}
		}
		lits = [][]byte{
			raw,
			{'\'', '\\', 'u', hex(cp >> 12), hex(cp >> 8), hex(cp >> 4), hex(cp), '\''},
			{'\'', '\\', 'U', '0', '0', '0', '0', hex(cp >> 12), hex(cp >> 8), hex(cp >> 4), hex(cp), '\''},
		}
	}
	charLit := token.FRONTENDTokens.Type("char_lit")
	first := ""
	for i := 0; i < len(lits); i++ {
		var s Scanner
		s.Init(lits[i], token.FRONTENDTokens)
		t, _ := s.Scan()
		verifAssert(t.Type == charLit && len(t.Lit) == len(lits[i]) && s.ErrorCount == 0, "every spelling is one char_lit token without error")
		verifAssert(util.LitToRune(t.Lit) == cp, "every spelling denotes the same code point")
		cl, _ := ast.NewLexCharLit(t)
		if i == 0 {
			first = cl.String()
		}
		verifAssert(cl.Val == cp && cl.String() == first, "every spelling yields the same character-literal node: value and printed form (the form items, classes and generated comments are keyed by)")
	}
	verifCover("end")
}

// verifRuneKey stands in for util.RuneToString inside the engine (whose fmt model has no text for
// a symbolic rune): some function of the code point and of nothing else. Natively the real
// RuneToString runs.
func verifRuneKey(r rune) string {
	return string([]byte{byte(r), byte(r >> 8), byte(r >> 16)})
}
