//go:build verif

package items

import "github.com/goccmack/gocc/internal/ast"

// Harnesses for C18: rune classes of a lexer state form an exact disjoint partition.

var verifHarnesses = map[string]func(){
	"VerifC18Step":  VerifC18Step,
	"VerifC18Empty": VerifC18Empty,
	"VerifC18Match": VerifC18Match,
}

const verifUnicodeMax = 0x10FFFF

// verifMaxRune bounds every rune of a run (parameter R; default: the whole Unicode range).
var verifMaxRune rune = verifUnicodeMax

func verifSetRange() {
	verifMaxRune = rune(verifParam("R", verifUnicodeMax))
}

// verifWellFormed: sorted, pairwise disjoint, non-empty, inside the Unicode range.
func verifWellFormed(s []CharRange) bool {
	ok := true
	for i := 0; i < len(s); i++ {
		if s[i].From < 0 || s[i].To > verifMaxRune || s[i].From > s[i].To {
			ok = false
		}
		if i > 0 && s[i-1].To >= s[i].From {
			ok = false
		}
	}
	return ok
}

func verifMember(s []CharRange, x rune) bool {
	in := false
	for i := 0; i < len(s); i++ {
		if s[i].From <= x && x <= s[i].To {
			in = true
		}
	}
	return in
}

// verifUnionOfClasses: every class lies inside [a,b] or outside it.
func verifUnionOfClasses(s []CharRange, a, b rune) bool {
	ok := true
	for i := 0; i < len(s); i++ {
		inside := a <= s[i].From && s[i].To <= b
		outside := s[i].To < a || b < s[i].From
		if !inside && !outside {
			ok = false
		}
	}
	return ok
}

// VerifC18Step: one AddRange from an arbitrary well-formed set (inductive step).
func VerifC18Step() {
	verifSetRange()
	// n (number of classes) and c (capacity of the slice) are case-split by the driver: one
	// symbolic run per (n, c); everything else is symbolic.
	n := verifParam("N", 2)
	c := verifParam("C", n+3)
	M := n
	backing := make([]CharRange, c)
	for i := 0; i < M; i++ {
		backing[i] = CharRange{verifNondetRune("from"), verifNondetRune("to")}
	}
	rs := &DisjunctRangeSet{set: backing[:n:c]}
	verifAssume(verifWellFormed(rs.set))

	from, to := verifNondetRune("addfrom"), verifNondetRune("addto")
	verifAssume(0 <= from && from <= to && to <= verifMaxRune)

	// ghost: a range [a,b] added earlier is exactly a union of classes gi..gj (contiguous run)
	gi, gj := verifNondetInt("gi"), verifNondetInt("gj")
	a, b := rune(1), rune(0)
	if n > 0 {
		verifAssume(0 <= gi && gi <= gj && gj < n)
		a, b = rs.set[gi].From, rs.set[gj].To
		for k := 0; k+1 < n; k++ {
			if gi <= k && k < gj {
				verifAssume(rs.set[k].To+1 == rs.set[k+1].From)
			}
		}
	}
	// probe rune
	x := verifNondetRune("x")
	verifAssume(0 <= x && x <= verifMaxRune)
	preMember := verifMember(rs.set, x)

	rs.AddRange(from, to)

	post := rs.List()
	verifAssert(len(post) == rs.Size(), "List and Size agree")
	verifAssert(len(post) >= n, "no class disappears")
	verifAssert(verifWellFormed(post), "classes sorted, disjoint, non-empty")
	postMember := verifMember(post, x)
	verifAssert(!preMember || postMember, "no rune leaves the union")
	verifAssert(!(from <= x && x <= to) || postMember, "the added range is covered")
	verifAssert(!postMember || preMember || (from <= x && x <= to), "nothing outside old union and added range is covered")
	verifAssert(verifUnionOfClasses(post, from, to), "added range is a union of classes")
	if n > 0 {
		verifAssert(verifUnionOfClasses(post, a, b), "earlier range is still a union of classes")
	}
	if len(post) >= n+2 {
		verifCover("split into three")
	}
	if len(post) == n {
		verifCover("nothing added")
	}
	if n > 0 && len(post) == n+1 {
		verifCover("one class added")
	}
	verifCover("end")
}

// VerifC18Empty: K calls starting from the empty set of NewDisjunctRangeSet.
func VerifC18Empty() {
	verifSetRange()
	K := verifParam("K", 3)
	rs := NewDisjunctRangeSet()
	x := verifNondetRune("x")
	verifAssume(0 <= x && x <= verifMaxRune)
	want := false
	for k := 0; k < K; k++ {
		from, to := verifNondetRune("addfrom"), verifNondetRune("addto")
		verifAssume(0 <= from && from <= to && to <= verifMaxRune)
		rs.AddRange(from, to)
		if from <= x && x <= to {
			want = true
		}
		verifAssert(verifUnionOfClasses(rs.List(), from, to), "added range is a union of classes")
	}
	verifAssert(verifWellFormed(rs.List()), "classes sorted, disjoint, non-empty")
	verifAssert(verifMember(rs.List(), x) == want, "union is exactly the union of the added ranges")
	verifAssert(rs.Size() <= 2*K-1 || K == 0, "at most 2K-1 classes")
	verifCover("end")
}

// verifRangeItem builds a basic item whose expected symbol is the range f-t (or the literal f).
func verifRangeItem(f, t rune, lit bool) (*Item, ast.LexTNode) {
	var term ast.LexTerm
	var tn ast.LexTNode
	if lit {
		l := &ast.LexCharLit{Val: f}
		term, tn = l, l
	} else {
		r := &ast.LexCharRange{From: &ast.LexCharLit{Val: f}, To: &ast.LexCharLit{Val: t}}
		term, tn = r, r
	}
	alt := &ast.LexAlt{Terms: []ast.LexTerm{term}}
	return &Item{pos: &itemPos{stack: []stackElement{{alt, 0}}}}, tn
}

// VerifC18Match: an item either matches a whole class or none of it. The state's classes are
// an arbitrary well-formed set in which the first item's range [a,b] is already a union of
// classes; a second item's symbol is then added through AddLexTNode (the path ItemSet uses).
func VerifC18Match() {
	verifSetRange()
	n := verifParam("N", 2)
	backing := make([]CharRange, n+3)
	for i := 0; i < n; i++ {
		backing[i] = CharRange{verifNondetRune("from"), verifNondetRune("to")}
	}
	rs := &DisjunctRangeSet{set: backing[:n]}
	verifAssume(verifWellFormed(rs.set))
	gi, gj := verifNondetInt("gi"), verifNondetInt("gj")
	verifAssume(0 <= gi && gi <= gj && gj < n)
	a, b := rs.set[gi].From, rs.set[gj].To
	for k := 0; k+1 < n; k++ {
		if gi <= k && k < gj {
			verifAssume(rs.set[k].To+1 == rs.set[k+1].From)
		}
	}
	lit1 := verifNondetBool("lit1")
	if lit1 {
		verifAssume(a == b)
	}
	item1, _ := verifRangeItem(a, b, lit1)

	from, to := verifNondetRune("addfrom"), verifNondetRune("addto")
	verifAssume(0 <= from && from <= to && to <= verifMaxRune)
	lit2 := verifNondetBool("lit2")
	if lit2 {
		verifAssume(from == to)
	}
	item2, sym2 := verifRangeItem(from, to, lit2)
	rs.AddLexTNode(sym2)

	k := verifNondetInt("k")
	verifAssume(0 <= k && k < rs.Size())
	cls := rs.Range(k)
	x := verifNondetRune("x")
	verifAssume(0 <= x && x <= verifMaxRune)
	verifAssume(cls.From <= x && x <= cls.To)
	verifAssert(item1.match(cls) == (a <= x && x <= b), "earlier item matches a class as a whole or not at all")
	verifAssert(item2.match(cls) == (from <= x && x <= to), "new item matches a class as a whole or not at all")
	if item1.match(cls) && item2.match(cls) {
		verifCover("class shared by both items")
	}
	verifCover("end")
}
