//go:build verif

package items

import "github.com/goccmack/gocc/internal/ast"

// Harness for the termination clause of C09 at the level of the lexer item-set construction:
// for the token   t : 'x' OUTER( INNER ) 'y' ;   with OUTER and INNER chosen (symbolically) among
// repetition, option and grouping, and the innermost operand among a character, two
// alternatives, an alternative with an optional part and a pattern that can only match the
// empty string of its operator, items.GetItemSets returns within the unwinding bounds of every
// loop (the epsilon-move worklist of Item.Emoves, the closure loops, the set construction) and
// yields a DFA with an accepting state.

func init() {
	verifHarnesses["VerifC09Emoves"] = VerifC09Emoves
}

func verifGrp(p *ast.LexPattern) ast.LexTerm { r, _ := ast.NewLexGroupPattern(p); return r }

func verifWrap(op int, p *ast.LexPattern) ast.LexTerm {
	switch op {
	case 0:
		return verifRep(p)
	case 1:
		return verifOpt(p)
	}
	return verifGrp(p)
}

func verifOperand(k int) *ast.LexPattern {
	switch k {
	case 0:
		return verifPat(verifAlt(verifChr("a")))
	case 1:
		return verifPat(verifAlt(verifChr("a")), verifAlt(verifChr("b")))
	case 2:
		return verifPat(verifAlt(verifChr("a"), verifOpt(verifPat(verifAlt(verifChr("b"))))))
	case 3:
		return verifPat(verifAlt(verifOpt(verifPat(verifAlt(verifChr("a"))))))
	}
	return verifPat(verifAlt(verifRep(verifPat(verifAlt(verifChr("a")))), verifChr("b")))
}

const (
	verifC09Ops      = 3
	verifC09Operands = 5
)

func VerifC09Emoves() {
	outer := verifNondetInt("outer")
	inner := verifNondetInt("inner")
	operand := verifNondetInt("operand")
	verifAssume(0 <= outer && outer < verifC09Ops && 0 <= inner && inner < verifC09Ops && 0 <= operand && operand < verifC09Operands)
	o, i, k := 0, 0, 0
	for x := 0; x < verifC09Ops; x++ { // concretise the shape: one path per pattern
		if outer == x {
			o = x
		}
		if inner == x {
			i = x
		}
	}
	for x := 0; x < verifC09Operands; x++ {
		if operand == x {
			k = x
		}
	}
	if po := verifParam("OUTER", -1); po >= 0 {
		verifAssume(o == po)
	}
	if pi := verifParam("INNER", -1); pi >= 0 {
		verifAssume(i == pi)
	}
	nested := verifWrap(i, verifOperand(k))
	if mid := verifParam("MID", -1); mid >= 0 { // thorough tier: a third level OUTER(MID(INNER(operand)))
		nested = verifWrap(mid, verifPat(verifAlt(nested)))
	}
	body := verifPat(verifAlt(nested))
	tok, _ := ast.NewLexTokDef(verifTok("t"), verifPat(verifAlt(verifChr("x"), verifWrap(o, body), verifChr("y"))))
	prods, _ := ast.NewLexProductions(tok)
	lp, err := ast.NewLexPart(nil, nil, prods)
	if err != nil {
		panic("harness: one token definition")
	}
	sets := GetItemSets(lp)
	verifAssert(sets.Size() >= 3, "the construction yields a DFA with at least start, 'x' and accepting state")
	verifCover("item sets constructed")
}
