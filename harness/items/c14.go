//go:build verif

package items

import (
	"github.com/goccmack/gocc/internal/ast"
	"github.com/goccmack/gocc/internal/frontend/token"
)

// Harness for the "undefined regular definition" clause of C14: the lexical part
//
//	_d  : '0'-'9' ;
//	_l  : 'a'-'z' | '_' ;
//	_ld : _l | _d ;
//	id  : _l { _ld } ;
//	num : _d { _d } [ '.' _d ] ;
//	!ws : ' ' | _nl ;      (with _nl : '\n' ;)
//
// is built with the real ast constructors; a symbolic index k picks one of its references to a
// regular definition (k = -1: none) and renames it to a name that is not defined; GetItemSets
// (the only place where gocc resolves these references) must not return normally then, and
// must return for k = -1.

func init() {
	verifHarnesses["VerifC14UndefRegDef"] = VerifC14UndefRegDef
}

func verifTok(s string) *token.Token { return &token.Token{Lit: []byte(s)} }

var verifRefCount int
var verifRefPick int

func verifRef(name string) ast.LexTerm {
	if verifRefCount == verifRefPick {
		name = "_undefined"
	}
	verifRefCount++
	r, _ := ast.NewLexRegDefId(verifTok(name))
	return r
}

func verifChr(c string) ast.LexTerm {
	l, _ := ast.NewLexCharLit(verifTok("'" + c + "'"))
	return l
}

func verifRng(a, b string) ast.LexTerm {
	r, _ := ast.NewLexCharRange(verifTok("'"+a+"'"), verifTok("'"+b+"'"))
	return r
}

func verifAlt(terms ...ast.LexTerm) *ast.LexAlt {
	a, _ := ast.NewLexAlt(terms[0])
	for _, t := range terms[1:] {
		a, _ = ast.AppendLexTerm(a, t)
	}
	return a
}

func verifPat(alts ...*ast.LexAlt) *ast.LexPattern {
	p, _ := ast.NewLexPattern(alts[0])
	for _, a := range alts[1:] {
		p, _ = ast.AppendLexAlt(p, a)
	}
	return p
}

func verifRep(p *ast.LexPattern) ast.LexTerm { r, _ := ast.NewLexRepPattern(p); return r }
func verifOpt(p *ast.LexPattern) ast.LexTerm { r, _ := ast.NewLexOptPattern(p); return r }

// verifLexPart builds the lexical part with reference number pick renamed (-1: none) and
// returns it with the number of references.
func verifLexPart(pick int) (*ast.LexPart, int) {
	verifRefCount, verifRefPick = 0, pick
	d, _ := ast.NewLexRegDef(verifTok("_d"), verifPat(verifAlt(verifRng("0", "9"))))
	l, _ := ast.NewLexRegDef(verifTok("_l"), verifPat(verifAlt(verifRng("a", "z")), verifAlt(verifChr("_"))))
	ld, _ := ast.NewLexRegDef(verifTok("_ld"), verifPat(verifAlt(verifRef("_l")), verifAlt(verifRef("_d"))))
	nl, _ := ast.NewLexRegDef(verifTok("_nl"), verifPat(verifAlt(verifChr("\\n"))))
	id, _ := ast.NewLexTokDef(verifTok("id"), verifPat(verifAlt(verifRef("_l"), verifRep(verifPat(verifAlt(verifRef("_ld")))))))
	num, _ := ast.NewLexTokDef(verifTok("num"), verifPat(verifAlt(verifRef("_d"), verifRep(verifPat(verifAlt(verifRef("_d")))), verifOpt(verifPat(verifAlt(verifChr("."), verifRef("_d")))))))
	ws, _ := ast.NewLexIgnoredTokDef(verifTok("!ws"), verifPat(verifAlt(verifChr(" ")), verifAlt(verifRef("_nl"))))
	prods, _ := ast.NewLexProductions(d)
	for _, p := range []interface{}{l, ld, nl, id, num, ws} {
		prods, _ = ast.AppendLexProduction(prods, p)
	}
	lp, err := ast.NewLexPart(nil, nil, prods)
	if err != nil {
		panic("the lexical part of the harness has no duplicates")
	}
	return lp, verifRefCount
}

const verifC14Refs = 8

func VerifC14UndefRegDef() {
	k := verifNondetInt("ref")
	verifAssume(-1 <= k && k < verifC14Refs)
	pick := -1
	for i := 0; i < verifC14Refs; i++ { // concretise the picked reference
		if k == i {
			pick = i
		}
	}
	lp, n := verifLexPart(pick)
	verifAssert(n == verifC14Refs, "harness: number of references")
	sets := GetItemSets(lp)
	verifAssert(pick < 0, "a reference to an undefined regular definition does not survive the lexer item-set construction")
	verifAssert(sets.Size() > 1, "the well-formed lexical part has a DFA")
	verifCover("well-formed lexical part accepted")
}
