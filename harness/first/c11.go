//go:build verif

package first

// Kernel harness for C11: results must not depend on map iteration order. Every range over a
// map visits its entries in an arbitrary order chosen independently by the engine (a fresh
// symbolic permutation per range statement); each function is run twice on equal inputs.

import "sort"

var verifHarnesses = map[string]func(){
	"VerifC11SymbolSet": VerifC11SymbolSet,
}

func verifNames(i int) string {
	switch i {
	case 0:
		return "a"
	case 1:
		return "b"
	case 2:
		return "c"
	case 3:
		return "empty"
	}
	return "d"
}

func verifSorted(s SymbolSet) []string {
	keys := make([]string, 0, len(s))
	for k := range s {
		keys = append(keys, k)
	}
	sort.Strings(keys)
	return keys
}

// verifSameSet compares two sets by membership of every name of the pool and by size (no
// iteration: the sets were filled in a symbolic order).
func verifSameSet(a, b SymbolSet) bool {
	same := len(a) == len(b)
	for i := 0; i < 5; i++ {
		_, ina := a[verifNames(i)]
		_, inb := b[verifNames(i)]
		if ina != inb {
			same = false
		}
	}
	return same
}

func verifSameStrings(a, b []string) bool {
	same := len(a) == len(b)
	for i := 0; i < len(a) && i < len(b); i++ {
		if a[i] != b[i] {
			same = false
		}
	}
	return same
}

// VerifC11SymbolSet: AddSet / Equal / FirstSets.AddSet on arbitrary small sets, twice.
func VerifC11SymbolSet() {
	repeat := verifParam("REPEAT", 1)
	// which of the five names are in A and in B: bit masks chosen by the driver (case split);
	// the symbolic part of this harness is the iteration order of every range over a map
	ma, mb := verifParam("MASKA", 7), verifParam("MASKB", 25)
	var inA, inB [5]bool
	for i := 0; i < 5; i++ {
		inA[i] = ma>>uint(i)&1 == 1
		inB[i] = mb>>uint(i)&1 == 1
	}
	build := func(in [5]bool) SymbolSet {
		s := make(SymbolSet)
		for i := 0; i < 5; i++ {
			if in[i] {
				s[verifNames(i)] = true
			}
		}
		return s
	}
	for r := 0; r < repeat; r++ {
		a1, a2, b1, b2 := build(inA), build(inA), build(inB), build(inB)
		e1, e2 := a1.Equal(b1), a2.Equal(b2)
		verifAssert(e1 == e2, "SymbolSet.Equal does not depend on iteration order")
		a1.AddSet(b1)
		a2.AddSet(b2)
		verifAssert(verifSameSet(a1, a2), "SymbolSet.AddSet gives the same set for every iteration order")
		f1 := &FirstSets{firstSets: map[string]SymbolSet{"P": build(inA)}}
		f2 := &FirstSets{firstSets: map[string]SymbolSet{"P": build(inA)}}
		ad1, ad2 := f1.AddSet("P", b1), f2.AddSet("P", b2)
		verifAssert(ad1 == ad2, "FirstSets.AddSet reports additions independently of iteration order")
		verifAssert(verifSameSet(f1.GetSet("P"), f2.GetSet("P")), "FirstSets.AddSet gives the same set for every iteration order")
	}
	verifCover("end")
}
