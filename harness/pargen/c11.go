//go:build verif

package golang

import (
	"bytes"
	"os"
	"path/filepath"
	"sort"

	"github.com/goccmack/gocc/internal/ast"
	"github.com/goccmack/gocc/internal/config"
	"github.com/goccmack/gocc/internal/frontend/parser"
	"github.com/goccmack/gocc/internal/frontend/scanner"
	"github.com/goccmack/gocc/internal/frontend/token"
	"github.com/goccmack/gocc/internal/parser/first"
	lr1Items "github.com/goccmack/gocc/internal/parser/lr1/items"
	"github.com/goccmack/gocc/internal/parser/symbols"
	outToken "github.com/goccmack/gocc/internal/token"
)

// Harness for C11 at the level of the parser table writers: the data that GenActionTable,
// GenGotoTable (plain and -zip), GenProductionsTable and GenParser hand to their templates and
// to the gob/gzip encoder must not depend on the order in which any map is visited. The front
// half of the pipeline runs once on a small grammar (natural order); then every writer is run
// twice: once in natural order and once with ONE execution of a range-over-map statement
// (whichever one: each choice is its own path) visiting the entries in another order. The two
// recordings must be deeply equal. Natively the writers produce real files twice and the bytes
// are compared (Go's random iteration order; the driver repeats the run).

var verifHarnesses = map[string]func(){
	"VerifC11TableWriters": VerifC11TableWriters,
}

const verifC11Grammar = "id : 'a'-'z' ;\n!ws : ' ' ;\nS : S \"+\" T | T ;\nT : id | \"(\" S \")\" | \"-\" T ;\n"

type verifC11Cfg struct{ zip bool }

func (c verifC11Cfg) Help() bool              { return false }
func (c verifC11Cfg) Verbose() bool           { return false }
func (c verifC11Cfg) Zip() bool               { return c.zip }
func (c verifC11Cfg) AllowUnreachable() bool  { return false }
func (c verifC11Cfg) AutoResolveLRConf() bool { return false }
func (c verifC11Cfg) SourceFile() string      { return "g.bnf" }
func (c verifC11Cfg) OutDir() string          { return "." }
func (c verifC11Cfg) NoLexer() bool           { return false }
func (c verifC11Cfg) DebugLexer() bool        { return false }
func (c verifC11Cfg) DebugParser() bool       { return false }
func (c verifC11Cfg) ErrorsDir() string       { return "errors" }
func (c verifC11Cfg) ParserDir() string       { return "parser" }
func (c verifC11Cfg) ScannerDir() string      { return "scanner" }
func (c verifC11Cfg) TokenDir() string        { return "token" }
func (c verifC11Cfg) ProjectName() string     { return "x" }
func (c verifC11Cfg) Package() string         { return "x" }
func (c verifC11Cfg) PrintParams()            {}

var _ config.Config = verifC11Cfg{}

// recordings of the symbolic run (filled by the stand-ins for template.Execute and genEnc)
var verifRecs [2][]interface{}
var verifRecRun int

func verifRecordExecute(data interface{}) {
	verifRecs[verifRecRun] = append(verifRecs[verifRecRun], data)
}

func verifRecordEnc(v interface{}) string {
	verifRecs[verifRecRun] = append(verifRecs[verifRecRun], v)
	return ""
}

func verifWriters(outDir string, zip bool, g *ast.Grammar, syms *symbols.Symbols, sets *lr1Items.ItemSets, tokMap *outToken.TokenMap) {
	cfg := verifC11Cfg{zip: zip}
	GenActionTable(outDir, g.SyntaxPart.ProdList, sets, tokMap, zip)
	GenGotoTable(outDir, sets, syms, zip)
	GenParser("x", outDir, g.SyntaxPart.ProdList, sets, syms, cfg)
	GenProductionsTable("x", outDir, g.SyntaxPart.Header.SDTLit, g.SyntaxPart.ProdList, syms, sets, tokMap)
}

func verifReadAll(dir string) []byte {
	var names []string
	filepath.Walk(dir, func(p string, info os.FileInfo, err error) error {
		if err == nil && !info.IsDir() {
			names = append(names, p)
		}
		return nil
	})
	sort.Strings(names)
	var b bytes.Buffer
	for _, n := range names {
		c, _ := os.ReadFile(n)
		b.WriteString(n[len(dir):])
		b.WriteByte(0)
		b.Write(c)
		b.WriteByte(0)
	}
	return b.Bytes()
}

func VerifC11TableWriters() {
	zip := verifParam("ZIP", 0) != 0
	s := &scanner.Scanner{}
	s.Init([]byte(verifC11Grammar), token.FRONTENDTokens)
	p := parser.NewParser(parser.ActionTable, parser.GotoTable, parser.ProductionsTable, token.FRONTENDTokens)
	gr, err := p.Parse(s)
	if err != nil {
		panic("harness grammar does not parse")
	}
	g := gr.(*ast.Grammar)
	syms := symbols.NewSymbols(g)
	syms.Add(g.LexPart.TokenIds()...)
	g.LexPart.UpdateStringLitTokens(syms.ListStringLitSymbols())
	tokMap := outToken.NewTokenMap(syms.ListTerminals())
	firstSets := first.GetFirstSets(g, syms)
	sets := lr1Items.GetItemSets(g, syms, firstSets)
	if verifSymbolic() {
		verifRecRun = 0
		verifWriters("out", zip, g, syms, sets, tokMap)
		verifMapOrderOne(true)
		verifRecRun = 1
		verifWriters("out", zip, g, syms, sets, tokMap)
		verifMapOrderOne(false)
		verifAssert(len(verifRecs[0]) == len(verifRecs[1]) && len(verifRecs[0]) >= 4, "both runs hand over the same number of data sets")
		for i := 0; i < len(verifRecs[0]) && i < len(verifRecs[1]); i++ {
			verifAssert(verifDeepEqual(verifRecs[0][i], verifRecs[1][i]), "the data handed to the templates and to the table encoder does not depend on the order in which a map is visited")
		}
	} else {
		var first []byte
		for r := 0; r < verifParam("REPEAT", 2); r++ {
			dir, err := os.MkdirTemp("", "c11writers")
			if err != nil {
				panic(err)
			}
			verifWriters(dir, zip, g, syms, sets, tokMap)
			b := verifReadAll(dir)
			os.RemoveAll(dir)
			if r == 0 {
				first = b
			}
			verifAssert(bytes.Equal(first, b), "the data handed to the templates and to the table encoder does not depend on the order in which a map is visited")
		}
	}
	verifCover("end")
}
