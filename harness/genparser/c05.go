//go:build verif

package parser

import (
	parseError "gen/errors"
	"gen/token"
)

// Harness for C05 (and a deeper oracle for C02): the real Parse in lock-step with a table-
// driven LR machine running on the REFERENCE canonical LR(1) tables built by /verif
// (verifRefAction etc., resolved by "shift first, then the earliest production").

func init() {
	verifHarnesses["VerifC05Lockstep"] = VerifC05Lockstep
}

type verifRefRunOut struct {
	accepted   bool
	reductions []int
	gaveUp     bool
	errPos     int // index of the token at which the reference machine found no action
	errState   int
}

func verifRefRun(kinds []int, budget int) verifRefRunOut {
	var out verifRefRunOut
	n := len(kinds)
	states := []int{0}
	pos := 0
	for step := 0; ; step++ {
		if step >= budget {
			out.gaveUp = true
			return out
		}
		col := verifRefNT // end of input
		if pos < n {
			col = kinds[pos]
		}
		a := verifRefAction[states[len(states)-1]][col]
		switch {
		case a == 0:
			out.errPos, out.errState = pos, states[len(states)-1]
			return out
		case a == 1:
			out.accepted = true
			return out
		case a >= 2:
			states = append(states, a-2)
			pos++
		default:
			p := -a - 1
			out.reductions = append(out.reductions, p)
			states = states[:len(states)-verifRefProdLen[p]]
			states = append(states, verifRefGoto[states[len(states)-1]][verifRefProdHead[p]])
		}
	}
}

func VerifC05Lockstep() {
	n := verifParam("N", 3)
	sc, kinds := verifTokens(n)
	verifCurScan = sc
	verifTrace = nil
	verifFailAt = -1
	ref := verifRefRun(kinds, verifParam("STEPS", 60))
	verifAssume(!ref.gaveUp)
	p := NewParser()
	_, err := p.Parse(sc)
	verifAssert((err == nil) == ref.accepted, "same verdict as the canonical LR(1) machine resolved shift-first, then earliest production")
	if err == nil && ref.accepted {
		verifAssert(len(verifTrace) == len(ref.reductions), "same number of reductions as the reference machine")
	}
	for e := 0; e < len(verifTrace) && e < len(ref.reductions); e++ {
		verifAssert(verifTrace[e].prod == ref.reductions[e]-1, "same reductions, in the same order, as the reference machine")
	}
	if err != nil {
		verifAssert(len(verifTrace) <= len(ref.reductions), "no reduction beyond those of the reference machine before the error")
	}
	if err != nil && !ref.accepted && verifRefErrCol < 0 {
		// error report: same offending token and the expected set of the reference state
		pe, ok := err.(*parseError.Error)
		verifAssert(ok && pe != nil, "Parse fails with a parse error value")
		if ok && pe != nil {
			if ref.errPos < n {
				verifAssert(pe.ErrorToken == sc.toks[ref.errPos], "same offending token as the reference machine")
			} else {
				verifAssert(pe.ErrorToken == sc.eof, "same offending token (end of input) as the reference machine")
			}
			want := 0
			for t := 0; t <= verifRefNT; t++ {
				name := token.TokMap.Id(token.EOF)
				if t < verifRefNT {
					name = verifTermNames[t]
				}
				in := false
				for _, s := range pe.ExpectedTokens {
					if s == name {
						in = true
					}
				}
				exp := verifRefAction[ref.errState][t] != 0
				verifAssert(in == exp, "same expected tokens as the reference state")
				if exp {
					want++
				}
			}
			verifAssert(len(pe.ExpectedTokens) == want, "expected list has no duplicates")
		}
		verifCover("rejected")
	}
	if ref.accepted {
		verifCover("accepted")
	}
	verifCover("end")
}
