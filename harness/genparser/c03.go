//go:build verif

package parser

// Harnesses for C03 (semantic actions bottom-up, left to right), C06 (error reports) on
// grammars whose every alternative carries the recording action
//   << verifNode(k, $Context, []Attrib{$T0, $1, ...}) >>
// (terminals through $Ti, nonterminals through $i).

import (
	parseError "gen/errors"
	"gen/token"
)

type verifEntry struct {
	prod  int
	ctx   interface{}
	args  []Attrib
	calls int // scanner calls made so far: the look-ahead is token number calls-1
}

type verifNodeT struct{ id int }

type verifErrT struct{}

func (verifErrT) Error() string { return "verif action error" }

var (
	verifTrace   []verifEntry
	verifFailAt        = -1
	verifTheErr  error = verifErrT{}
	verifCurScan *verifScanner
)

func verifNode(k int, ctx interface{}, args []Attrib) (Attrib, error) {
	e := len(verifTrace)
	verifTrace = append(verifTrace, verifEntry{prod: k, ctx: ctx, args: args, calls: verifCurScan.calls})
	if e == verifFailAt {
		return nil, verifTheErr
	}
	return &verifNodeT{id: e}, nil
}

func init() {
	verifHarnesses["VerifC03Tree"] = VerifC03Tree
	verifHarnesses["VerifC03Default"] = VerifC03Default
	verifHarnesses["VerifC03ErrClause"] = VerifC03ErrClause
	verifHarnesses["VerifC06Error"] = VerifC06Error
}

type verifCtxT struct{ tag int }

// verifCheckTree checks that the trace is the post-order evaluation of a derivation tree of
// the token sequence and that root is its root. Returns through assertions.
func verifCheckTree(sc *verifScanner, kinds []int, root Attrib, ctx interface{}) {
	n := len(kinds)
	ne := len(verifTrace)
	lo := make([]int, ne) // span of each node; -1 = empty (position free)
	hi := make([]int, ne)
	first := make([]int, ne) // first trace index of the node's subtree
	usedTok := make([]int, n)
	usedNode := make([]int, ne)
	for e := 0; e < ne; e++ {
		en := verifTrace[e]
		p := verifProds[en.prod]
		verifAssert(en.ctx == ctx, "$Context is the parser's Context field")
		verifAssert(len(en.args) == len(p.body), "an action receives one attribute per body symbol")
		l, h, f := -1, -1, e
		prevNode := -1
		for i := 0; i < len(p.body) && i < len(en.args); i++ {
			x := p.body[i]
			al, ah := -1, -1
			if x >= 0 {
				tok, ok := en.args[i].(*token.Token)
				verifAssert(ok, "a terminal's attribute is a token")
				j := -1
				for t := 0; t < n; t++ {
					if sc.toks[t] == tok {
						j = t
					}
				}
				verifAssert(j >= 0, "a terminal's attribute is the very token object the scanner returned")
				if j >= 0 {
					verifAssert(kinds[j] == x, "the token has the terminal's type")
					usedTok[j]++
					al, ah = j, j+1
				}
			} else {
				nd, ok := en.args[i].(*verifNodeT)
				verifAssert(ok && nd != nil, "a nonterminal's attribute is the value its action returned")
				if ok && nd != nil {
					c := nd.id
					verifAssert(c < e, "children are evaluated before their parent")
					verifAssert(verifProds[verifTrace[c].prod].head == -x-1, "the child is a tree of the body symbol")
					usedNode[c]++
					al, ah = lo[c], hi[c]
					verifAssert(first[c] > prevNode, "siblings are evaluated left to right")
					prevNode = c
					if first[c] < f {
						f = first[c]
					}
				}
			}
			if al >= 0 {
				if h >= 0 {
					verifAssert(al == h, "children cover adjacent stretches of the input, in order")
				}
				if l < 0 {
					l = al
				}
				h = ah
			}
		}
		lo[e], hi[e], first[e] = l, h, f
	}
	for t := 0; t < n; t++ {
		verifAssert(usedTok[t] == 1, "every token reaches exactly one action")
	}
	for e := 0; e+1 < ne; e++ {
		verifAssert(usedNode[e] == 1, "every action result is used exactly once")
	}
	rn, ok := root.(*verifNodeT)
	verifAssert(ok && rn != nil && ne > 0 && rn.id == ne-1, "Parse returns the value of the root action")
	if ne > 0 {
		verifAssert(verifProds[verifTrace[ne-1].prod].head == 0, "the root is a tree of the start symbol")
		verifAssert(usedNode[ne-1] == 0, "the root is nobody's child")
		if n > 0 {
			verifAssert(lo[ne-1] == 0 && hi[ne-1] == n, "the root covers the whole input")
		}
	}
}

// VerifC03Tree: on success the action calls form the post-order evaluation of the parse tree;
// with a failing action Parse stops at once and returns an error carrying the action's error.
func VerifC03Tree() {
	n := verifParam("N", 3)
	sc, kinds := verifTokens(n)
	verifCurScan = sc
	verifTrace = nil
	verifFailAt = verifNondetInt("failat")
	verifAssume(-1 <= verifFailAt && verifFailAt <= 3*n+3)
	ctx := &verifCtxT{tag: 7}
	p := NewParser()
	p.Context = ctx
	res, err := p.Parse(sc)
	if err == nil {
		verifAssert(verifFailAt < 0 || verifFailAt >= len(verifTrace), "a failing action makes Parse fail")
		verifCheckTree(sc, kinds, res, ctx)
		verifCover("accepted")
	} else if verifFailAt >= 0 && verifFailAt < len(verifTrace) {
		verifAssert(len(verifTrace) == verifFailAt+1, "no action runs after a failing action")
		pe, ok := err.(*parseError.Error)
		verifAssert(ok && pe != nil && pe.Err == verifTheErr, "the returned error carries the action's error")
		verifAssert(res == nil, "no result with an error")
		verifCover("action failed")
	}
	verifCover("end")
}

// VerifC03ErrClause: the error clause alone, for any grammar (also those with error
// alternatives, where a syntax-error recovery machinery exists that must NOT be used for a
// failing action): once an action returned an error no further action runs and Parse returns
// a non-nil error carrying it.
func VerifC03ErrClause() {
	n := verifParam("N", 3)
	sc, _ := verifTokens(n)
	verifCurScan = sc
	verifTrace = nil
	verifFailAt = verifNondetInt("failat")
	verifAssume(0 <= verifFailAt && verifFailAt <= 3*n+3)
	p := NewParser()
	res, err := p.Parse(sc)
	if verifFailAt < len(verifTrace) {
		verifAssert(err != nil, "a failing action makes Parse fail")
		verifAssert(len(verifTrace) == verifFailAt+1, "no action runs after a failing action")
		if err != nil {
			pe, ok := err.(*parseError.Error)
			verifAssert(ok && pe != nil && pe.Err == verifTheErr, "the returned error carries the action's error")
		}
		verifAssert(res == nil, "no result with an error")
		verifCover("action failed")
	}
	verifCover("end")
}

// VerifC03Default: an alternative without action yields its first symbol's attribute, an empty
// alternative without action yields nil (checked on the generated reduce functions of the
// copy of the grammar that has no actions: parameter PROD selects the production).
func VerifC03Default() {
	k := verifParam("PROD", 0)
	m := productionsTable[k].NumSymbols
	args := make([]Attrib, m)
	for i := 0; i < m; i++ {
		args[i] = &verifNodeT{id: i}
	}
	ctx := &verifCtxT{tag: 1}
	v, err := productionsTable[k].ReduceFunc(args, ctx)
	verifAssert(err == nil, "default action returns no error")
	if m == 0 {
		verifAssert(v == nil, "empty alternative without action yields nil")
	} else {
		verifAssert(v == args[0], "alternative without action yields its first symbol's attribute")
	}
	verifCover("end")
}

// ---- C06 ---------------------------------------------------------------------------------

// verifViablePrefix: is kinds a prefix of some sentence (all nonterminals productive)?
func verifViablePrefix(kinds []int) uint8 {
	n := len(kinds)
	d := verifCYK(kinds)
	nnt := len(verifNTNames)
	// only spans ending at n matter: pre[A][i] = A prefix-derives tokens i..n-1
	pre := make([][]uint8, nnt)
	for a := 0; a < nnt; a++ {
		pre[a] = make([]uint8, n+1)
		pre[a][n] = 1
	}
	psym := func(x, r int) uint8 {
		if x >= 0 {
			if r == n {
				return 1
			}
			if r == n-1 {
				return b2u(kinds[r] == x)
			}
			return 0
		}
		return pre[-x-1][r]
	}
	exact := func(x, r, q int) uint8 {
		if x >= 0 {
			if q != r+1 {
				return 0
			}
			return b2u(kinds[r] == x)
		}
		return d[-x-1][r][q]
	}
	for i := n - 1; i >= 0; i-- {
		for round := 0; round <= nnt; round++ {
			for pi := 0; pi < len(verifProds); pi++ {
				p := verifProds[pi]
				if p.dead {
					continue
				}
				// f[q-i] = body[0..k) derives exactly tokens i..q-1
				f := make([]uint8, n-i+1)
				f[0] = 1
				var acc uint8
				for k := 0; k < len(p.body); k++ {
					for r := i; r <= n; r++ {
						if f[r-i] == 0 {
							continue
						}
						acc |= f[r-i] & psym(p.body[k], r)
					}
					g := make([]uint8, n-i+1)
					for q := i; q <= n; q++ {
						var a2 uint8
						for r := i; r <= q; r++ {
							if f[r-i] == 0 {
								continue
							}
							a2 |= f[r-i] & exact(p.body[k], r, q)
						}
						g[q-i] = a2
					}
					f = g
				}
				pre[p.head][i] |= acc
			}
		}
	}
	if n == 0 {
		return 1
	}
	return pre[0][0]
}

// VerifC06Error: when Parse fails the error names the first offending token and lists exactly
// the terminals that could have come instead.
func VerifC06Error() {
	n := verifParam("N", 2)
	nt := len(verifTermNames)
	sc, kinds := verifTokens(n)
	verifCurScan = sc
	verifTrace = nil
	verifFailAt = -1
	// oracle, computed before the parser runs
	viable := make([]uint8, n+1) // viable[i]: tokens 0..i-1 are a prefix of a sentence
	ext := make([][]uint8, n+1)  // ext[i][a]: tokens 0..i-1 followed by terminal a are viable
	sent := make([]uint8, n+1)   // sent[i]: tokens 0..i-1 are a sentence
	for i := 0; i <= n; i++ {
		viable[i] = verifViablePrefix(kinds[:i])
		d := verifCYK(kinds[:i])
		sent[i] = d[0][0][i]
		ext[i] = make([]uint8, nt)
		for a := 0; a < nt; a++ {
			k2 := make([]int, i+1)
			copy(k2, kinds[:i])
			k2[i] = a
			ext[i][a] = verifViablePrefix(k2)
		}
	}
	p := NewParser()
	_, err := p.Parse(sc)
	if err == nil {
		verifAssert(sent[n] == 1, "accepted input is a sentence")
		verifCover("accepted")
		return
	}
	pe, ok := err.(*parseError.Error)
	verifAssert(ok && pe != nil, "Parse fails with a parse error value")
	if !ok || pe == nil {
		return
	}
	// first offending position: smallest i with tokens 0..i not viable; i == n means end of input
	bad := -1
	for i := n; i >= 0; i-- {
		if i < n {
			if viable[i+1] == 0 {
				bad = i
			}
		} else if sent[n] == 0 {
			bad = n
		}
	}
	verifAssert(bad >= 0, "rejected input is not a sentence")
	if bad < 0 {
		return
	}
	if bad < n {
		verifAssert(pe.ErrorToken == sc.toks[bad], "the error carries the first offending token")
		verifCover("offending token inside the input")
	} else {
		verifAssert(pe.ErrorToken == sc.eof, "the error carries the end-of-input token")
		verifCover("unexpected end of input")
	}
	for e := 0; e < len(verifTrace); e++ {
		verifAssert(verifTrace[e].calls-1 != bad, "no action runs with the offending token as look-ahead")
	}
	// expected set
	want := 0
	for a := 0; a < nt; a++ {
		in := false
		for _, s := range pe.ExpectedTokens {
			if s == verifTermNames[a] {
				in = true
			}
		}
		verifAssert(in == (ext[bad][a] == 1), "a terminal is listed as expected iff it can follow the valid prefix")
		if ext[bad][a] == 1 {
			want++
		}
	}
	eofIn := false
	for _, s := range pe.ExpectedTokens {
		if s == token.TokMap.Id(token.EOF) {
			eofIn = true
		}
	}
	verifAssert(eofIn == (sent[bad] == 1), "end of input is listed as expected iff the valid prefix is a sentence")
	if sent[bad] == 1 {
		want++
	}
	verifAssert(len(pe.ExpectedTokens) == want, "the expected list has no duplicates and nothing else")
	// rendering the error must not change what it reports
	before := make([]string, len(pe.ExpectedTokens))
	copy(before, pe.ExpectedTokens)
	_ = pe.Error()
	verifAssert(len(pe.ExpectedTokens) == len(before), "rendering the error (Error()) does not change the expected set")
	for i := 0; i < len(before) && i < len(pe.ExpectedTokens); i++ {
		verifAssert(pe.ExpectedTokens[i] == before[i], "rendering the error (Error()) does not change the expected set")
	}
	verifCover("end")
}
