//go:build verif

package parser

// Native-only helper: prints the parser tables as JSON so that tables built by code the
// symbolic engine cannot execute (-zip: gzip + gob in init) can be injected into it.

import (
	"encoding/json"
	"fmt"

	"gen/token"
)

type verifDumpAct struct {
	Kind int `json:"k"` // 0 nil, 1 accept, 2 shift, 3 reduce
	Val  int `json:"v"`
}

type verifDump struct {
	CanRecover []bool           `json:"can_recover"`
	Actions    [][]verifDumpAct `json:"actions"`
	Goto       [][]int          `json:"goto"`
	TokNames   []string         `json:"tok_names"` // by token type number
	NTType     map[string]int   `json:"nt_type"`   // head name -> goto column
}

func init() {
	verifHarnesses["VerifDumpTables"] = VerifDumpTables
}

func VerifDumpTables() {
	var d verifDump
	for s := 0; s < numStates; s++ {
		d.CanRecover = append(d.CanRecover, actionTab[s].canRecover)
		row := make([]verifDumpAct, numSymbols)
		for t := 0; t < numSymbols; t++ {
			switch a := actionTab[s].actions[t].(type) {
			case accept:
				row[t] = verifDumpAct{1, 0}
			case shift:
				row[t] = verifDumpAct{2, int(a)}
			case reduce:
				row[t] = verifDumpAct{3, int(a)}
			}
		}
		d.Actions = append(d.Actions, row)
		g := make([]int, numNTSymbols)
		for k := 0; k < numNTSymbols; k++ {
			g[k] = gotoTab[s][k]
		}
		d.Goto = append(d.Goto, g)
	}
	for t := 0; t < numSymbols; t++ {
		d.TokNames = append(d.TokNames, token.TokMap.Id(token.Type(t)))
	}
	d.NTType = map[string]int{}
	for _, p := range productionsTable {
		d.NTType[p.Id] = p.NTType
	}
	b, _ := json.Marshal(d)
	fmt.Printf("VERIF-TABLES: %s\n", b)
}
