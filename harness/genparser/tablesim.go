//go:build verif

package parser

// Table simulation lemma for generated parsers: the generated action/goto/production tables
// simulate /verif's reference canonical LR(1) automaton (resolved by the stated rule) step by
// step, from every pair of the candidate relation verifSimPairs, for a symbolic terminal and a
// symbolic nonterminal. Unbounded in the length of the input.

import "gen/token"

func init() {
	verifHarnesses["VerifTableSim"] = VerifTableSim
}

func verifInSim(s, r int) bool {
	in := false
	for _, p := range verifSimPairs {
		if p[0] == s && p[1] == r {
			in = true
		}
	}
	return in
}

func VerifTableSim() {
	nt := len(verifTermNames)
	ncol := verifRefNT // terminals incl. the error symbol (if used); column ncol is end of input
	t := verifNondetInt("term")
	verifAssume(0 <= t && t <= ncol)
	typ := token.EOF
	for k := 0; k < ncol; k++ {
		if t == k {
			if k < nt {
				typ = token.TokMap.Type(verifTermNames[k])
			} else {
				typ = token.TokMap.Type("error")
			}
		}
	}
	a := verifNondetInt("nonterm")
	verifAssume(0 <= a && a < len(verifNTNames))
	// goto column of nonterminal a: the NTType of its productions (all equal)
	col := -1
	for pi := 1; pi < len(productionsTable); pi++ {
		if verifRefProdHead[pi] == a {
			if col >= 0 {
				verifAssert(productionsTable[pi].NTType == col, "all productions of a nonterminal use the same goto column")
			}
			col = productionsTable[pi].NTType
		}
	}
	verifAssert(len(productionsTable) == len(verifRefProdLen), "as many productions as the grammar (plus the augmented one)")
	for pi := 0; pi < len(productionsTable) && pi < len(verifRefProdLen); pi++ {
		verifAssert(productionsTable[pi].NumSymbols == verifRefProdLen[pi], "a reduction pops as many symbols as the production's body has")
	}
	for _, p := range verifSimPairs {
		s, r := p[0], p[1]
		ref := 0
		for k := 0; k <= ncol; k++ {
			if t == k {
				ref = verifRefAction[r][k]
			}
		}
		switch x := actionTab[s].actions[typ].(type) {
		case nil:
			verifAssert(ref == 0, "no action in the generated table iff none in the reference automaton")
		case accept:
			verifAssert(ref == 1, "accept iff the reference automaton accepts")
		case shift:
			verifAssert(ref >= 2 && verifInSim(int(x), ref-2), "shift iff the reference automaton shifts, into corresponding states")
		case reduce:
			verifAssert(ref < 0 && int(x) == -ref-1, "reduce iff the reference automaton reduces by the same production")
		}
		wantRecover := false
		if ec := verifRefErrCol; ec >= 0 {
			wantRecover = verifRefAction[r][ec] >= 2
		}
		verifAssert(actionTab[s].canRecover == wantRecover, "a state is a recovery state iff it shifts the error symbol")
		rg := -1
		for k := 0; k < len(verifNTNames); k++ {
			if a == k {
				rg = verifRefGoto[r][k]
			}
		}
		if col >= 0 {
			g := gotoTab[s][col]
			if g >= 0 {
				verifAssert(rg >= 0 && verifInSim(g, rg), "goto entries correspond")
			} else {
				verifAssert(rg < 0, "no goto entry iff none in the reference automaton")
			}
		}
	}
	verifCover("end")
}
