//go:build verif

package parser

// Common harness code for the generated parser: symbolic token streams and the grammar oracle
// (CYK recogniser over /verif's own view of the grammar, see verifProds in the data file).

import (
	"gen/token"
)

type verifProd struct {
	head int
	body []int // terminal t: t >= 0 (index into verifTermNames); nonterminal k: -(k+1)
	dead bool  // alternative removed from the oracle's grammar (error alternatives)
}

// verifTermType maps the oracle's terminal index to the generated token type, by NAME through
// the generated token.TokMap (so a numbering skew between packages is visible).
func verifTermType(t int) token.Type { return token.TokMap.Type(verifTermNames[t]) }

// verifScanner delivers a fixed token sequence, then end-of-input forever.
type verifScanner struct {
	toks  []*token.Token
	i     int
	calls int
	eof   *token.Token
}

func (s *verifScanner) Scan() *token.Token {
	s.calls++
	if s.i < len(s.toks) {
		t := s.toks[s.i]
		s.i++
		return t
	}
	return s.eof
}

// verifTokens builds n tokens whose kinds are arbitrary terminals of the grammar. kinds[i] is
// the oracle's terminal index of token i.
func verifTokens(n int) (*verifScanner, []int) {
	nt := len(verifTermNames)
	kinds := make([]int, n)
	toks := make([]*token.Token, n)
	for i := 0; i < n; i++ {
		k := verifNondetInt("tok")
		verifAssume(0 <= k && k < nt)
		kinds[i] = k
		// select the type with a table lookup over the concrete terminal list
		typ := token.Type(0)
		for t := 0; t < nt; t++ {
			if k == t {
				typ = verifTermType(t)
			}
		}
		toks[i] = &token.Token{Type: typ, Lit: []byte{byte('A' + i)}, Pos: token.Pos{Offset: i, Line: 1, Column: i + 1}}
	}
	eof := &token.Token{Type: token.EOF, Pos: token.Pos{Offset: n, Line: 1, Column: n + 1}}
	return &verifScanner{toks: toks, eof: eof}, kinds
}

func b2u(b bool) uint8 {
	if b {
		return 1
	}
	return 0
}

// verifCYK computes d[A][i][j] = 1 iff nonterminal A derives tokens i..j-1 (0 <= i <= j <= n),
// for a general context-free grammar (empty and unit productions allowed). Same-span
// dependencies are closed by len(verifNTNames)+1 rounds per span. Branch-free on the token
// kinds: only &, | on 0/1 bytes, so that symbolic execution produces one formula.
func verifCYK(kinds []int) [][][]uint8 {
	n := len(kinds)
	nnt := len(verifNTNames)
	d := make([][][]uint8, nnt)
	for a := 0; a < nnt; a++ {
		d[a] = make([][]uint8, n+1)
		for i := 0; i <= n; i++ {
			d[a][i] = make([]uint8, n+1)
		}
	}
	sym := func(x, r, q int) uint8 {
		if x >= 0 {
			if q != r+1 {
				return 0
			}
			return b2u(kinds[r] == x)
		}
		return d[-x-1][r][q]
	}
	for length := 0; length <= n; length++ {
		for i := 0; i+length <= n; i++ {
			j := i + length
			for round := 0; round <= nnt; round++ {
				for pi := 0; pi < len(verifProds); pi++ {
					p := verifProds[pi]
					if p.dead {
						continue
					}
					m := len(p.body)
					// f[q-i] = body[0..k) derives tokens i..q-1
					f := make([]uint8, length+1)
					f[0] = 1
					for k := 0; k < m; k++ {
						g := make([]uint8, length+1)
						for q := i; q <= j; q++ {
							var acc uint8
							for r := i; r <= q; r++ {
								if f[r-i] == 0 {
									continue
								}
								acc |= f[r-i] & sym(p.body[k], r, q)
							}
							g[q-i] = acc
						}
						f = g
					}
					d[p.head][i][j] |= f[length]
				}
			}
		}
	}
	return d
}
