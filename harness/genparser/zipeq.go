//go:build verif

package parser

// C12, -zip: the tables that the -zip build decodes in its init (run natively by the driver and
// handed over as verifZip* data) are the tables of the plain build of the same grammar (this
// package, initialised by the engine), for a SYMBOLIC state and a SYMBOLIC terminal /
// nonterminal column: same action kind and operand, same canRecover flag, same goto entry.
// Identical tables under the identical driver: identical behaviour on inputs of every length.

func init() {
	verifHarnesses["VerifC12ZipEq"] = VerifC12ZipEq
}

func VerifC12ZipEq() {
	verifAssert(len(verifZipActions) == numStates && len(verifZipGoto) == numStates && len(verifZipCanRecover) == numStates, "the -zip build has the same number of states")
	s := verifNondetInt("state")
	verifAssume(0 <= s && s < numStates && s < len(verifZipActions))
	t := verifNondetInt("terminal")
	verifAssume(0 <= t && t < numSymbols)
	k := verifNondetInt("nonterminal")
	verifAssume(0 <= k && k < numNTSymbols)
	for si := 0; si < numStates; si++ { // concretise the state, keep the columns symbolic
		if s != si {
			continue
		}
		verifAssert(len(verifZipActions[si]) == numSymbols && len(verifZipGoto[si]) == numNTSymbols, "the -zip build has the same number of columns")
		kind, val := 0, 0
		switch a := actionTab[si].actions[t].(type) {
		case accept:
			kind = 1
		case shift:
			kind, val = 2, int(a)
		case reduce:
			kind, val = 3, int(a)
		}
		zk, zv := 0, 0
		for ti := 0; ti < numSymbols && ti < len(verifZipActions[si]); ti++ {
			if t == ti {
				zk, zv = verifZipActions[si][ti][0], verifZipActions[si][ti][1]
			}
		}
		verifAssert(kind == zk && val == zv, "-zip and plain builds have the same action entry")
		verifAssert(actionTab[si].canRecover == verifZipCanRecover[si], "-zip and plain builds flag the same recovery states")
		zg := -2
		for ki := 0; ki < numNTSymbols && ki < len(verifZipGoto[si]); ki++ {
			if k == ki {
				zg = verifZipGoto[si][ki]
			}
		}
		verifAssert(gotoTab[si][k] == zg, "-zip and plain builds have the same goto entry")
	}
	verifCover("end")
}
