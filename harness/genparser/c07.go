//go:build verif

package parser

// Harness for C07: error recovery. The real Parse is compared with a reference LR driver that
// uses the same generated tables but its own transcription of the recovery rule as the
// property states it.

import (
	parseError "gen/errors"
	"gen/token"
)

func init() {
	verifHarnesses["VerifC07Recover"] = VerifC07Recover
}

type verifRefOut struct {
	res    Attrib
	failed bool
	errTok *token.Token
	trace  []verifEntry
	steps  int
	gaveUp bool // step budget exhausted
}

func verifIsShift(a action) (int, bool) {
	if s, ok := a.(shift); ok {
		return int(s), true
	}
	return 0, false
}

// verifRefParse: table-driven LR parse with recovery as stated by C07:
// discard the stack above the topmost state that can SHIFT the error symbol, push an error
// attribute recording the offending token and the discarded attributes, skip input starting
// with the offending token up to the first token acceptable in the new state, continue; if no
// state can shift the error symbol or the input ends first, fail.
func verifRefParse(toks []*token.Token, eof *token.Token, ctx interface{}, budget int) verifRefOut {
	var out verifRefOut
	saved := verifTrace
	verifTrace = nil
	states := []int{0}
	attribs := []Attrib{nil}
	pos := 0
	calls := 1
	next := func() *token.Token {
		if pos < len(toks) {
			return toks[pos]
		}
		return eof
	}
	la := next()
	errType := token.TokMap.Type("error")
	for out.steps = 0; out.steps < budget; out.steps++ {
		top := states[len(states)-1]
		act := actionTab[top].actions[la.Type]
		if act == nil {
			r := len(states) - 1
			for r >= 0 {
				if _, ok := verifIsShift(actionTab[states[r]].actions[errType]); ok {
					break
				}
				r--
			}
			if r < 0 {
				out.failed, out.errTok = true, la
				break
			}
			tgt, _ := verifIsShift(actionTab[states[r]].actions[errType])
			out.errTok = la // the offending token is what a failing Parse reports
			discarded := make([]parseError.ErrorSymbol, 0, len(states))
			for k := r + 1; k < len(attribs); k++ {
				discarded = append(discarded, attribs[k])
			}
			states = states[:r+1]
			attribs = attribs[:r+1]
			states = append(states, tgt)
			attribs = append(attribs, &parseError.Error{ErrorToken: la, ErrorSymbols: discarded})
			stuck := false
			for actionTab[tgt].actions[la.Type] == nil {
				if la.Type == token.EOF {
					stuck = true
					break
				}
				pos++
				calls++
				la = next()
			}
			if stuck {
				out.failed = true
				break
			}
			continue
		}
		if _, ok := act.(accept); ok {
			out.res = attribs[len(attribs)-1]
			break
		}
		if s, ok := verifIsShift(act); ok {
			states = append(states, s)
			attribs = append(attribs, la)
			pos++
			calls++
			la = next()
			continue
		}
		rd := act.(reduce)
		prod := productionsTable[int(rd)]
		args := make([]Attrib, prod.NumSymbols)
		copy(args, attribs[len(attribs)-prod.NumSymbols:])
		states = states[:len(states)-prod.NumSymbols]
		attribs = attribs[:len(attribs)-prod.NumSymbols]
		// record the call like verifNode does (the reference does not run the user action)
		if int(rd) > 0 {
			e := len(verifTrace)
			verifTrace = append(verifTrace, verifEntry{prod: int(rd) - 1, ctx: ctx, args: args, calls: calls})
			attribs = append(attribs, &verifNodeT{id: e})
		} else {
			attribs = append(attribs, args[0])
		}
		states = append(states, gotoTab[states[len(states)-1]][prod.NTType])
	}
	if out.steps >= budget {
		out.gaveUp = true
	}
	out.trace = verifTrace
	verifTrace = saved
	return out
}

// verifSameAttrib: token objects by identity, action results by trace index, error attributes
// by their recorded offending token and discarded attributes.
func verifSameAttrib(a, b Attrib) bool {
	switch x := a.(type) {
	case nil:
		return b == nil
	case *token.Token:
		y, ok := b.(*token.Token)
		return ok && x == y
	case *verifNodeT:
		y, ok := b.(*verifNodeT)
		return ok && x != nil && y != nil && x.id == y.id
	case *parseError.Error:
		y, ok := b.(*parseError.Error)
		if !ok || x == nil || y == nil || x.ErrorToken != y.ErrorToken || len(x.ErrorSymbols) != len(y.ErrorSymbols) {
			return false
		}
		same := true
		for i := 0; i < len(x.ErrorSymbols); i++ {
			if !verifSameAttrib(x.ErrorSymbols[i], y.ErrorSymbols[i]) {
				same = false
			}
		}
		return same
	}
	return false
}

func VerifC07Recover() {
	n := verifParam("N", 2)
	sc, kinds := verifTokens(n)
	verifCurScan = sc
	verifTrace = nil
	verifFailAt = -1
	ctx := &verifCtxT{tag: 9}
	budget := verifParam("STEPS", 40)

	ref := verifRefParse(sc.toks, sc.eof, ctx, budget)
	verifAssume(!ref.gaveUp)

	p := NewParser()
	p.Context = ctx
	res, err := p.Parse(sc)

	verifAssert((err != nil) == ref.failed, "same verdict as the stated recovery rule")
	if err == nil && !ref.failed {
		verifAssert(verifSameAttrib(res, ref.res), "same result as the stated recovery rule")
	}
	if err != nil && ref.failed {
		pe, ok := err.(*parseError.Error)
		verifAssert(ok && pe != nil && pe.ErrorToken == ref.errTok, "the returned error carries the token at which recovery gave up")
	}
	verifAssert(len(verifTrace) == len(ref.trace), "same number of action calls as the stated recovery rule")
	for e := 0; e < len(verifTrace) && e < len(ref.trace); e++ {
		a, b := verifTrace[e], ref.trace[e]
		verifAssert(a.prod == b.prod && len(a.args) == len(b.args), "same reductions as the stated recovery rule")
		for i := 0; i < len(a.args) && i < len(b.args); i++ {
			verifAssert(verifSameAttrib(a.args[i], b.args[i]), "same attributes (tokens, results, error attributes) as the stated recovery rule")
		}
	}
	if verifParam("DEBUG", 0) == 1 {
		println("err", err != nil, "ref.failed", ref.failed, "trace", len(verifTrace), "reftrace", len(ref.trace))
		for e := 0; e < len(verifTrace); e++ {
			println(" entry", e, "prod", verifTrace[e].prod, "nargs", len(verifTrace[e].args))
			for _, a := range verifTrace[e].args {
				if tok, ok := a.(*token.Token); ok {
					println("   tok offset", tok.Pos.Offset)
				} else if nd, ok := a.(*verifNodeT); ok {
					println("   node", nd.id)
				} else if pe, ok := a.(*parseError.Error); ok {
					println("   error attrib, offending offset", pe.ErrorToken.Pos.Offset, "discarded", len(pe.ErrorSymbols))
				} else {
					println("   other")
				}
			}
		}
	}
	// tokens reach actions at most once and in input order: every token object is an argument
	// of at most one action, and within every action the stretches of input covered by the
	// arguments (a token, or the tokens below an action result) are strictly increasing
	ne := len(verifTrace)
	tlo := make([]int, ne) // smallest / largest token offset below entry e, -1 if none
	thi := make([]int, ne)
	used := make([]int, n)
	for e := 0; e < ne; e++ {
		tlo[e], thi[e] = -1, -1
		prev := -1
		for _, a := range verifTrace[e].args {
			alo, ahi := -1, -1
			if tok, ok := a.(*token.Token); ok {
				alo, ahi = tok.Pos.Offset, tok.Pos.Offset
				if alo >= 0 && alo < n {
					used[alo]++
				}
			} else if nd, ok := a.(*verifNodeT); ok && nd != nil && nd.id < e {
				alo, ahi = tlo[nd.id], thi[nd.id]
			}
			if alo >= 0 {
				verifAssert(alo > prev, "tokens reach actions in input order")
				prev = ahi
				if tlo[e] < 0 {
					tlo[e] = alo
				}
				thi[e] = ahi
			}
		}
	}
	for t := 0; t < n; t++ {
		verifAssert(used[t] <= 1, "a token reaches at most one action")
	}
	// inertness: sentences of the grammar without its error alternatives parse without recovery
	d := verifCYK(kinds)
	if d[0][0][n] == 1 {
		verifAssert(err == nil, "a sentence of the error-free grammar is accepted")
		usedErr := false
		for e := 0; e < len(verifTrace); e++ {
			if verifProds[verifTrace[e].prod].dead {
				usedErr = true
			}
		}
		verifAssert(!usedErr, "no error alternative is used on input without syntax errors")
		if err == nil {
			verifCheckTree(sc, kinds, res, ctx)
		}
		verifCover("error-free sentence")
	}
	if len(verifTrace) > 0 && err == nil && d[0][0][n] == 0 {
		verifCover("recovered")
	}
	verifCover("end")
}
