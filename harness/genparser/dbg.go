//go:build verif

package parser

func init() {
	verifHarnesses["VerifDbg"] = VerifDbg
}

func VerifDbg() {
	k0 := verifNondetInt("k")
	verifAssume(k0 == 4 || k0 == 3)
	kinds := []int{k0}
	d := verifCYK(kinds)
	verifAssert((d[2][0][1] == 1) == (k0 == 4), "F derives num iff")
	verifAssert((d[0][0][1] == 1) == (k0 == 4), "E derives num iff")
	verifAssume(k0 == 4)
	verifAssert(d[2][0][1] == 1, "F derives num")
	verifAssert(d[1][0][1] == 1, "T derives num")
	verifAssert(d[0][0][1] == 1, "E derives num")
	x := make([]uint8, 2)
	x[0] = 1
	var acc uint8
	acc |= x[0] & b2u(kinds[0] == 4)
	verifAssert(acc == 1, "acc")
	f := func(a int) uint8 { return x[a] }
	verifAssert(f(0) == 1, "closure read")
	dd := make([][]uint8, 2)
	dd[0] = make([]uint8, 2)
	dd[1] = make([]uint8, 2)
	dd[1][1] |= acc
	verifAssert(dd[1][1] == 1, "nested store")
	g := func(a int) uint8 { return dd[a][a] }
	verifAssert(g(1) == 1, "closure nested read")
	verifCover("end")
}
