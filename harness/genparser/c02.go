//go:build verif

package parser

var verifHarnesses = map[string]func(){
	"VerifC02Accept": VerifC02Accept,
}

// VerifC02Accept: Parse returns a nil error iff the token sequence is a sentence.
func VerifC02Accept() {
	n := verifParam("N", 3)
	sc, kinds := verifTokens(n)
	verifCurScan = sc
	verifTrace = nil
	verifFailAt = -1
	d := verifCYK(kinds)
	sentence := d[0][0][n] == 1
	p := NewParser()
	_, err := p.Parse(sc)
	verifAssert((err == nil) == sentence, "Parse accepts exactly the sentences of the grammar")
	if sentence {
		verifCover("sentence")
	} else {
		verifCover("non-sentence")
	}
	verifCover("end")
}
