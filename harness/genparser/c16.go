//go:build verif

package parser

// Harnesses for the parser halves of C16 (reuse) and C17 (no shared writes).

import (
	parseError "gen/errors"
	"gen/token"
)

func init() {
	verifHarnesses["VerifC16Parser"] = VerifC16Parser
	verifHarnesses["VerifC17Parser"] = VerifC17Parser
}

type verifJunk struct{ n int }

// VerifC16Parser: a parser object in an ARBITRARY state (whatever earlier Parse calls left:
// any stack contents, any look-ahead token, any pos) gives the same result, error, expected
// tokens and action calls as a new parser on the same input.
func VerifC16Parser() {
	n := verifParam("N", 2)
	stale := verifParam("STALE", 2)
	sc, _ := verifTokens(n)
	sc2 := &verifScanner{toks: sc.toks, eof: sc.eof}
	ctx := &verifCtxT{tag: 3}

	// an earlier deep input may have grown the stack beyond its initial capacity
	capacity := verifParam("CAP", iNITIAL_STACK_SIZE)
	st := &stack{state: make([]int, stale, capacity), attrib: make([]Attrib, stale, capacity)}
	for i := 0; i < stale; i++ {
		s := verifNondetInt("stalestate")
		verifAssume(0 <= s && s < numStates)
		st.state[i] = s
		st.attrib[i] = &verifJunk{n: i}
	}
	used := &Parser{stack: st, nextToken: &token.Token{Type: token.Type(verifNondetInt("staletok"))}, pos: verifNondetInt("stalepos"), Context: ctx}
	fresh := NewParser()
	fresh.Context = ctx

	verifCurScan = sc
	verifTrace = nil
	verifFailAt = -1
	r1, e1 := used.Parse(sc)
	t1 := verifTrace

	verifCurScan = sc2
	verifTrace = nil
	r2, e2 := fresh.Parse(sc2)
	t2 := verifTrace

	verifAssert((e1 == nil) == (e2 == nil), "same verdict as a new parser")
	verifAssert(verifSameAttrib(r1, r2), "same result as a new parser")
	verifAssert(len(t1) == len(t2), "same number of action calls as a new parser")
	for e := 0; e < len(t1) && e < len(t2); e++ {
		verifAssert(t1[e].prod == t2[e].prod && len(t1[e].args) == len(t2[e].args) && t1[e].calls == t2[e].calls, "same action calls as a new parser")
		for i := 0; i < len(t1[e].args) && i < len(t2[e].args); i++ {
			verifAssert(verifSameAttrib(t1[e].args[i], t2[e].args[i]), "same action arguments as a new parser")
		}
	}
	if e1 != nil && e2 != nil {
		p1, ok1 := e1.(*parseError.Error)
		p2, ok2 := e2.(*parseError.Error)
		verifAssert(ok1 && ok2 && p1.ErrorToken == p2.ErrorToken, "same error token as a new parser")
		if ok1 && ok2 {
			verifAssert(len(p1.ExpectedTokens) == len(p2.ExpectedTokens), "same expected-token list as a new parser")
			for i := 0; i < len(p1.ExpectedTokens) && i < len(p2.ExpectedTokens); i++ {
				verifAssert(p1.ExpectedTokens[i] == p2.ExpectedTokens[i], "same expected tokens as a new parser")
			}
			verifAssert(len(p1.ErrorSymbols) == len(p2.ErrorSymbols), "same error symbols as a new parser")
		}
		verifCover("both fail")
	}
	if e1 == nil && e2 == nil {
		verifCover("both accept")
	}
	verifCover("end")
}

// VerifC17Parser: everything a goroutine calls on its own parser/scanner/error objects writes
// only to objects created by those calls (write tracking is switched on by the harness).
func VerifC17Parser() {
	n := verifParam("N", 2)
	verifTrackWrites(true)
	sc, _ := verifTokens(n)
	p := NewParser()
	_, err := p.Parse(sc)
	if err != nil {
		if pe, ok := err.(*parseError.Error); ok {
			_ = pe.Error()
			_ = pe.String()
			_ = parseError.DescribeExpected(pe.ExpectedTokens)
			_ = parseError.DescribeToken(pe.ErrorToken)
		}
		verifCover("error path")
	}
	// second use of the same objects
	sc.i = 0
	p.Parse(sc)
	tt := verifNondetInt("t")
	verifAssume(tt >= 0) // token types are never negative
	_ = token.TokMap.Id(token.Type(tt))
	_ = token.TokMap.Type("x")
	verifTrackWrites(false)
	verifCover("end")
}
