//go:build verif

package golang

import (
	"bytes"
	"os"
	"path/filepath"

	outToken "github.com/goccmack/gocc/internal/token"
)

// Harness for C11 at the level of the token package writer (GenToken: typeMap / idMap): same
// device as the parser table writers (harness/pargen/c11.go). The terminal list is given
// directly (hostile spellings included).

var verifHarnesses = map[string]func(){
	"VerifC11TokenWriter": VerifC11TokenWriter,
}

var verifRecs [2][]interface{}
var verifRecRun int

func verifRecordExecute(data interface{}) {
	verifRecs[verifRecRun] = append(verifRecs[verifRecRun], data)
}

func VerifC11TokenWriter() {
	tokMap := outToken.NewTokenMap([]string{"INVALID", "␚", "id", "+", "\\n", "\"", "if", "num"})
	if verifSymbolic() {
		verifRecRun = 0
		GenToken("x", "out", tokMap)
		verifMapOrderOne(true)
		verifRecRun = 1
		GenToken("x", "out", tokMap)
		verifMapOrderOne(false)
		verifAssert(len(verifRecs[0]) == len(verifRecs[1]) && len(verifRecs[0]) >= 1, "both runs hand over the same number of data sets")
		for i := 0; i < len(verifRecs[0]) && i < len(verifRecs[1]); i++ {
			verifAssert(verifDeepEqual(verifRecs[0][i], verifRecs[1][i]), "the data handed to the template does not depend on the order in which a map is visited")
		}
	} else {
		var first []byte
		for r := 0; r < verifParam("REPEAT", 2); r++ {
			dir, err := os.MkdirTemp("", "c11tokwriter")
			if err != nil {
				panic(err)
			}
			GenToken("x", dir, tokMap)
			b, _ := os.ReadFile(filepath.Join(dir, "token", "token.go"))
			os.RemoveAll(dir)
			if r == 0 {
				first = b
			}
			verifAssert(bytes.Equal(first, b), "the data handed to the template does not depend on the order in which a map is visited")
		}
	}
	verifCover("end")
}
