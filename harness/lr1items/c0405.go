//go:build verif

package items

import "github.com/goccmack/gocc/internal/parser/lr1/action"

// Kernel harness for C04/C05: (*ItemSet).Action over an arbitrary small item set.

var verifHarnesses = map[string]func(){
	"VerifActionKernel": VerifActionKernel,
}

func verifSym(i int) string {
	switch i {
	case 0:
		return "a"
	case 1:
		return "b"
	case 2:
		return "␚"
	}
	return "N" // a nonterminal
}

// VerifActionKernel: K arbitrary items, arbitrary symbol. MODE 0 assumes that the accepting
// item does not compete with a reduction; MODE 1 assumes that it does (then Action must not
// return: gocc refuses such a grammar).
func VerifActionKernel() {
	k := verifParam("K", 2)
	mode := verifParam("MODE", 0)
	set := &ItemSet{Transitions: map[string]int{}}
	ta, tb := verifNondetInt("ta"), verifNondetInt("tb")
	verifAssume(1 <= ta && ta <= 9 && 1 <= tb && tb <= 9)
	set.Transitions["a"] = ta
	set.Transitions["b"] = tb
	symIdx := verifNondetInt("sym")
	verifAssume(0 <= symIdx && symIdx <= 2)
	sym := verifSym(symIdx)

	// oracle accumulators
	anyShift, anyAccept := false, false
	minReduce := -1
	distinctReduces := 0
	for i := 0; i < k; i++ {
		prod := verifNondetInt("prod")
		ln := verifNondetInt("len")
		pos := verifNondetInt("pos")
		exp := verifNondetInt("exp")
		fol := verifNondetInt("fol")
		verifAssume(0 <= prod && prod <= 4 && 0 <= ln && ln <= 2 && 0 <= pos && pos <= ln)
		// an item expects a terminal (a, b) or a nonterminal, never end of input
		verifAssume((exp == 0 || exp == 1 || exp == 3) && 0 <= fol && fol <= 2)
		// production 0 is S' : S with end of input as its only look-ahead
		if prod == 0 {
			verifAssume(ln == 1 && fol == 2 && (pos == 1 || exp == 3))
		}
		it := &Item{ProdIdx: prod, Len: ln, Pos: pos, FollowingSymbol: verifSym(fol)}
		if pos < ln {
			it.ExpectedSymbol = verifSym(exp)
		}
		set.Items = append(set.Items, it)
		// what LR theory says this item contributes for sym
		complete := pos >= ln
		switch {
		case !complete && exp == symIdx:
			anyShift = true
		case complete && prod == 0 && symIdx == 2:
			anyAccept = true
		case complete && fol == symIdx:
			if minReduce < 0 {
				distinctReduces = 1
				minReduce = prod
			} else if prod != minReduce {
				// counts "another production"; exactness of the count is not needed
				distinctReduces = 2
				if prod < minReduce {
					minReduce = prod
				}
			}
		}
	}
	acceptCompetes := anyAccept && (minReduce >= 0 || anyShift)
	if mode == 0 {
		verifAssume(!acceptCompetes)
	} else {
		verifAssume(acceptCompetes)
	}

	act, conflicts := set.Action(sym)
	// natively the iteration order of Action's conflict map is random: a replay repeats the call
	// (REPEAT is set by the driver in replay files only) and keeps a deviating result
	differs := false
	for r := 1; r < verifParam("REPEAT", 1); r++ {
		if a2, c2 := set.Action(sym); a2 != act {
			act, conflicts, differs = a2, c2, true
		}
	}
	verifAssert(!differs, "Action returns the same action on every call (no dependence on map iteration order)")

	verifAssert(mode == 0, "an accept/reduce conflict is refused (Action does not return)")
	wantConflict := (anyShift && minReduce >= 0) || distinctReduces >= 2
	verifAssert((len(conflicts) > 0) == wantConflict, "a conflict is reported iff two different actions compete")
	switch a := act.(type) {
	case action.Shift:
		verifAssert(anyShift, "shift only if an item shifts the symbol")
		verifAssert((symIdx == 0 && int(a) == ta) || (symIdx == 1 && int(a) == tb), "shift goes to the transition target")
	case action.Reduce:
		verifAssert(!anyShift && minReduce >= 0 && int(a) == minReduce, "without a shift the earliest competing production is reduced")
	case action.Accept:
		verifAssert(anyAccept && !anyShift && minReduce < 0, "accept only when nothing competes")
	case action.Error:
		verifAssert(!anyShift && minReduce < 0 && !anyAccept, "error only if no item acts on the symbol")
	default:
		verifAssert(false, "unknown action type")
	}
	if wantConflict {
		verifCover("conflict")
	}
	if anyShift && minReduce >= 0 {
		verifCover("shift/reduce")
	}
	verifCover("end")
}
