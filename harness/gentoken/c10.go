//go:build verif

package token

// Harness for C10: the generated token package numbers INVALID 0, end of input 1 and every
// other terminal with distinct consecutive numbers; name<->number lookups are mutually inverse.

var verifHarnesses = map[string]func(){
	"VerifC10Bijection": VerifC10Bijection,
}

func VerifC10Bijection() {
	nt := len(verifTermNames)
	n := len(TokMap.typeMap)
	verifAssert(n == 2+nt+verifParam("EXTRA", 0), "INVALID, end of input and one number per terminal, nothing else")
	verifAssert(len(TokMap.idMap) == n, "as many names as numbers")
	verifAssert(INVALID == 0 && EOF == 1, "INVALID is 0 and end of input is 1")
	verifAssert(TokMap.Id(INVALID) == "INVALID" && TokMap.Type("INVALID") == INVALID, "INVALID round trip")
	verifAssert(TokMap.Type(TokMap.Id(EOF)) == EOF, "end of input round trip")

	// number -> name -> number, for an arbitrary number in range
	k := verifNondetInt("k")
	verifAssume(0 <= k && k < n)
	verifAssert(TokMap.Type(TokMap.Id(Type(k))) == Type(k), "number -> name -> number is the identity")

	// name -> number -> name, for every terminal of the grammar (as /verif knows it)
	nums := make([]Type, nt)
	for i := 0; i < nt; i++ {
		t := TokMap.Type(verifTermNames[i])
		nums[i] = t
		verifAssert(int(t) >= 2 && int(t) < n, "a terminal has a number of its own")
		verifAssert(TokMap.Id(t) == verifTermNames[i], "name -> number -> name is the identity")
	}
	for i := 0; i < nt; i++ {
		for j := i + 1; j < nt; j++ {
			verifAssert(nums[i] != nums[j], "distinct terminals have distinct numbers")
		}
	}

	// unknown names map to INVALID: an arbitrary string of up to 3 bytes
	l := verifNondetInt("ulen")
	verifAssume(0 <= l && l <= 3)
	buf := make([]byte, 3)
	for i := 0; i < 3; i++ {
		buf[i] = verifNondetByte("u")
	}
	u := string(buf[:l])
	known := u == "INVALID" || u == TokMap.Id(EOF)
	for i := 0; i < nt; i++ {
		if u == verifTermNames[i] {
			known = true
		}
	}
	if verifParam("EXTRA", 0) == 1 && u == "error" {
		known = true
	}
	if !known {
		verifAssert(TokMap.Type(u) == INVALID, "unknown names map to INVALID")
		verifCover("unknown name")
	} else {
		verifCover("known short name")
	}
	verifCover("end")
}
