//go:build verif

package ast

// Kernel harness for C11: LexPart.TokenIds is independent of map iteration order.

var verifHarnesses = map[string]func(){
	"VerifC11TokenIds": VerifC11TokenIds,
}

func VerifC11TokenIds() {
	repeat := verifParam("REPEAT", 1)
	names := []string{"nan", "naN", "Nan", "if"}
	n := verifParam("N", 3)
	build := func() *LexPart {
		lp := &LexPart{TokDefs: map[string]*LexTokDef{}}
		for i := 0; i < n; i++ {
			lp.TokDefs[names[i]] = &LexTokDef{}
		}
		return lp
	}
	for r := 0; r < repeat; r++ {
		a, b := build().TokenIds(), build().TokenIds()
		same := len(a) == len(b)
		for i := 0; i < len(a) && i < len(b); i++ {
			if a[i] != b[i] {
				same = false
			}
		}
		verifAssert(same, "TokenIds is the same list for every iteration order")
		for i := 0; i+1 < len(a); i++ {
			verifAssert(a[i] < a[i+1], "TokenIds is sorted")
		}
	}
	verifCover("end")
}
