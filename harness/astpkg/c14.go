//go:build verif

package ast

// Kernel harness for the semantic half of C14 (undefined syntax production, alternative left
// empty) and for C11 (the verdict must not depend on map iteration order): ast.consistent on a
// small grammar  S' : S ;  S : <undefined production?> <undefined token?> t ;  with symbolic
// spellings and every map iteration order symbolic.

func init() {
	verifHarnesses["VerifC14Consistent"] = VerifC14Consistent
}

func VerifC14Consistent() {
	mode := verifParam("MODE", 3)
	c1 := verifNondetByte("c1")
	c2 := verifNondetByte("c2")
	verifAssume('A' <= c1 && c1 <= 'Z' && 'a' <= c2 && c2 <= 'z')
	prodName := string([]byte{c1, 'x'})
	tokName := string([]byte{c2, 'y'})
	var syms SyntaxSymbols
	// what stands in front of the references: nothing, the error symbol (a recovery alternative
	// is an alternative like any other: its symbols are uses), or a defined token
	switch verifParam("PRE", 0) {
	case 1:
		syms = append(syms, errorConst)
	case 2:
		syms = append(syms, SyntaxTokId("t"))
	}
	if mode == 1 || mode == 3 {
		syms = append(syms, SyntaxProdId(prodName))
	}
	if mode == 2 || mode == 3 {
		syms = append(syms, SyntaxTokId(tokName))
	}
	if mode != 4 {
		syms = append(syms, SyntaxTokId("t"))
	}
	g := &Grammar{
		LexPart: &LexPart{TokDefsList: []*LexTokDef{{id: "t"}}},
		SyntaxPart: &SyntaxPart{ProdList: SyntaxProdList{
			{Id: "S'", Body: &SyntaxBody{Symbols: SyntaxSymbols{SyntaxProdId("S")}}},
			{Id: "S", Body: &SyntaxBody{Symbols: syms}},
		}},
	}
	// natively the map order is random: a replay repeats the call (REPEAT is set by the driver in
	// replay files only; the symbolic run covers every order in one pass)
	err := consistent(g)
	for r := 1; r < verifParam("REPEAT", 1); r++ {
		if e2 := consistent(g); (e2 == nil) != (err == nil) || e2 == nil {
			err = e2
		}
	}
	switch mode {
	case 0, 2:
		verifAssert(err == nil, "a grammar whose productions are all defined is consistent (undefined tokens only warn)")
	case 1, 3:
		verifAssert(err != nil, "an undefined syntax production is an error, whatever its name and whatever else is undefined")
	case 4:
		verifAssert(err != nil, "an alternative left empty without the keyword is an error")
	}
	verifCover("end")
}

func init() {
	verifHarnesses["VerifC14Duplicates"] = VerifC14Duplicates
}

// VerifC14Duplicates: two lexical definitions of the same kind with SYMBOLIC one-letter names:
// NewLexPart yields a lexical part iff the names differ (a duplicate is refused by an error or
// by the panic of LexProdMap.Add, which makes gocc exit non-zero).
func VerifC14Duplicates() {
	kind := verifParam("KIND", 0)
	a, b := verifNondetByte("a"), verifNondetByte("b")
	verifAssume('a' <= a && a <= 'c' && 'a' <= b && b <= 'c')
	mk := func(c byte) LexProduction {
		pat := &LexPattern{}
		switch kind {
		case 1:
			return &LexRegDef{id: "_" + string([]byte{c}), pattern: pat}
		case 2:
			return &LexIgnoredTokDef{id: "!" + string([]byte{c}), pattern: pat}
		}
		return &LexTokDef{id: string([]byte{c}), pattern: pat}
	}
	lp, err := NewLexPart(nil, nil, &LexProductions{Productions: []LexProduction{mk(a), mk(b)}})
	if a == b {
		verifAssert(err != nil && lp == nil, "a definition given twice is refused")
		verifCover("duplicate reported by error")
	} else {
		verifAssert(err == nil && lp != nil, "distinct definitions are accepted")
		verifCover("distinct")
	}
	verifCover("end")
}
