//go:build verif

package token

// Harness for C09 ("... compile whenever the action expressions are themselves valid Go, whatever
// characters appear inside those expressions"): the text between << and >> reaches the code
// generators unchanged, except that white space at both ends is removed. Placeholders ($0, $T1,
// $Context) are the subject of C03; here the text contains no '$', so the placeholder rewriting
// (regexp.ReplaceAllStringFunc) is the identity, which is how the engine models it.

var verifHarnesses = map[string]func(){
	"VerifC09SDTVal": VerifC09SDTVal,
}

func verifGoSpace(b byte) bool { return b == ' ' || b == '\t' || b == '\n' || b == '\r' }

func VerifC09SDTVal() {
	L := verifParam("L", 3)
	lit := make([]byte, L+4)
	lit[0], lit[1] = '<', '<'
	lit[L+2], lit[L+3] = '>', '>'
	for i := 0; i < L; i++ {
		b := verifNondetByte("body")
		// ASCII, no placeholder, none of the two white-space characters Go source does not have
		verifAssume(b < 0x80 && b != '$' && b != '\v' && b != '\f')
		lit[2+i] = b
	}
	tok := &Token{Type: 1, Lit: lit}
	got := tok.SDTVal()
	a, z := 0, L
	for a < z && verifGoSpace(lit[2+a]) {
		a++
	}
	for z > a && verifGoSpace(lit[2+z-1]) {
		z--
	}
	want := string(lit[2+a : 2+z])
	verifAssert(got == want, "SDTVal returns the action text without its delimiters and surrounding white space, and otherwise unchanged")
	if z > a && lit[2+a] == '<' {
		verifCover("action text starting with <")
	}
	if z > a && lit[2+z-1] == '>' {
		verifCover("action text ending with >")
	}
	verifCover("end")
}
