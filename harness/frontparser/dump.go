//go:build verif

package parser

// Native-only helper: prints the shipped front-end tables as JSON (action entries keyed by token
// NAME, goto entries by nonterminal name) for the driver's simulation-relation search.

import (
	"encoding/json"
	"fmt"

	"github.com/goccmack/gocc/internal/frontend/token"
)

type verifFDumpAct struct {
	Tok  string `json:"tok"`
	Kind int    `json:"k"` // 1 accept, 2 shift, 3 reduce
	Val  int    `json:"v"`
}

type verifFDump struct {
	CanRecover []bool            `json:"can_recover"`
	Actions    [][]verifFDumpAct `json:"actions"`
	Goto       []map[string]int  `json:"goto"`
}

func init() {
	verifHarnesses["VerifDumpTables"] = VerifDumpTables
}

func VerifDumpTables() {
	var d verifFDump
	tm := token.FRONTENDTokens
	for s := range ActionTable {
		d.CanRecover = append(d.CanRecover, ActionTable[s].canRecover)
		var row []verifFDumpAct
		for t, a := range ActionTable[s].Actions {
			e := verifFDumpAct{Tok: tm.TokenString(t)}
			switch x := a.(type) {
			case Accept:
				e.Kind = 1
			case Shift:
				e.Kind, e.Val = 2, int(x)
			case Reduce:
				e.Kind, e.Val = 3, int(x)
			}
			row = append(row, e)
		}
		d.Actions = append(d.Actions, row)
		g := map[string]int{}
		if s < len(GotoTable) {
			for nt, st := range GotoTable[s] {
				g[string(nt)] = int(st)
			}
		}
		d.Goto = append(d.Goto, g)
	}
	b, _ := json.Marshal(d)
	fmt.Printf("VERIF-TABLES: %s\n", b)
}
