//go:build verif

package parser

// Harness for C15 / C14 (token level): gocc's own front-end parser with its checked-in tables
// in lock-step with the reference canonical LR(1) machine that /verif builds from
// spec/gocc2.ebnf on every run. Reduce functions are replaced by recording stubs so that
// semantic checks do not mask a token-level acceptance.

import (
	"github.com/goccmack/gocc/internal/frontend/token"
)

var verifHarnesses = map[string]func(){
	"VerifC15Lockstep": VerifC15Lockstep,
}

type verifProd struct {
	head int
	body []int
	dead bool
}

type verifFScanner struct {
	toks []*token.Token
	i    int
	eof  *token.Token
}

func (s *verifFScanner) Scan() (*token.Token, token.Position) {
	if s.i < len(s.toks) {
		t := s.toks[s.i]
		s.i++
		return t, token.Position{Offset: s.i, Line: 1, Column: s.i}
	}
	return s.eof, token.Position{Offset: len(s.toks) + 1, Line: 1, Column: len(s.toks) + 1}
}

type verifFNode struct{ prod int }

var verifFReductions []int

type verifRefRunOut struct {
	accepted   bool
	reductions []int
	gaveUp     bool
	errPos     int
}

func verifRefRun(kinds []int, budget int) verifRefRunOut {
	var out verifRefRunOut
	n := len(kinds)
	states := []int{0}
	pos := 0
	for step := 0; ; step++ {
		if step >= budget {
			out.gaveUp = true
			return out
		}
		col := verifRefNT
		if pos < n {
			col = kinds[pos]
		}
		a := verifRefAction[states[len(states)-1]][col]
		switch {
		case a == 0:
			out.errPos = pos
			return out
		case a == 1:
			out.accepted = true
			return out
		case a >= 2:
			states = append(states, a-2)
			pos++
		default:
			p := -a - 1
			out.reductions = append(out.reductions, p)
			states = states[:len(states)-verifRefProdLen[p]]
			states = append(states, verifRefGoto[states[len(states)-1]][verifRefProdHead[p]])
		}
	}
}

// verifProdMap[i] = index (1-based, 0 = S') of the spec production that the checked-in table
// entry i implements (same head, same body), computed by the driver from the String fields and
// verified to be a bijection with matching NumSymbols; -1 if none.
// verifFTokens builds the symbolic token sequence (not a fork-mode function: the token kinds
// stay symbolic and the parser's own branches split them lazily).
func verifFTokens(n int) (*verifFScanner, []int) {
	nt := len(verifTermNames)
	tm := token.FRONTENDTokens
	kinds := make([]int, n)
	toks := make([]*token.Token, n)
	for i := 0; i < n; i++ {
		k := verifNondetInt("tok")
		verifAssume(0 <= k && k < nt)
		kinds[i] = k
		typ := token.Type(0)
		for t := 0; t < nt; t++ {
			if k == t {
				typ = tm.Type(verifTermNames[t])
			}
		}
		toks[i] = &token.Token{Type: typ, Lit: []byte("x")}
	}
	return &verifFScanner{toks: toks, eof: &token.Token{Type: token.EOF}}, kinds
}

func VerifC15Lockstep() {
	n := verifParam("N", 3)
	tm := token.FRONTENDTokens
	sc, kinds := verifFTokens(n)

	// table facts (concrete): the checked-in productions are the spec's productions
	verifAssert(len(ProductionsTable) == len(verifProdMap), "as many productions as the documented grammar")
	for i := 0; i < len(ProductionsTable) && i < len(verifProdMap); i++ {
		verifAssert(verifProdMap[i] >= 0, "every shipped production is a production of the documented grammar (same head and body)")
		if verifProdMap[i] >= 0 {
			verifAssert(ProductionsTable[i].NumSymbols == verifRefProdLen[verifProdMap[i]], "the shipped production pops as many symbols as its body has")
		}
	}

	prods := make(ProdTab, len(ProductionsTable))
	verifFReductions = nil
	for i := 0; i < len(ProductionsTable); i++ {
		idx := i
		prods[i] = ProductionsTable[i]
		prods[i].ReduceFunc = func(X []Attrib) (Attrib, error) {
			verifFReductions = append(verifFReductions, idx)
			return &verifFNode{prod: idx}, nil
		}
	}
	ref := verifRefRun(kinds, verifParam("STEPS", 80))
	verifAssume(!ref.gaveUp)

	p := NewParser(ActionTable, GotoTable, prods, tm)
	// a parser object that has been used before: whatever an earlier (possibly rejected) input
	// left on its stack must not matter
	for i := 0; i < verifParam("STALE", 0); i++ {
		// one of a few representative states (kept small: the point is that ANY leftover matters not)
		k := verifNondetInt("stalestate")
		s := 1
		switch {
		case k == 1:
			s = 7
		case k == 2:
			s = 12
		case k == 3:
			s = 40
		}
		p.stack.Push(State(s), nil)
	}
	_, err := p.Parse(sc)

	verifAssert((err == nil) == ref.accepted, "accepted iff the token sequence is a sentence of spec/gocc2.ebnf")
	if err == nil && ref.accepted {
		verifAssert(len(verifFReductions) == len(ref.reductions), "same number of reductions as the documented grammar requires")
		verifCover("accepted")
	}
	for e := 0; e < len(verifFReductions) && e < len(ref.reductions); e++ {
		r := verifFReductions[e]
		verifAssert(r >= 0 && r < len(verifProdMap) && verifProdMap[r] == ref.reductions[e], "each reduction is by the documented production with the same head and body")
	}
	if err != nil && !ref.accepted {
		verifCover("rejected")
	}
	verifCover("end")
}

func init() {
	verifHarnesses["VerifC15TableSim"] = VerifC15TableSim
}

func verifInSim(s, r int) bool {
	in := false
	for _, p := range verifSimPairs {
		if p[0] == s && p[1] == r {
			in = true
		}
	}
	return in
}

// VerifC15TableSim: the shipped tables simulate the reference canonical LR(1) automaton of
// spec/gocc2.ebnf step by step. verifSimPairs (computed by the driver by a search from (0,0))
// is the candidate relation between shipped states and reference states; for EVERY pair in it,
// every terminal (symbolic) and every nonterminal (symbolic) the two automata must take
// corresponding actions into pairs of the relation again. Together with the lock-step run of
// the real Parse loop on short inputs this extends "accepts the same language, performs the
// documented reductions" to token sequences of every length.
func VerifC15TableSim() {
	nt := len(verifTermNames)
	tm := token.FRONTENDTokens
	t := verifNondetInt("term")
	verifAssume(0 <= t && t <= nt) // nt = end of input
	typ := token.EOF
	for k := 0; k < nt; k++ {
		if t == k {
			typ = tm.Type(verifTermNames[k])
		}
	}
	a := verifNondetInt("nonterm")
	verifAssume(0 <= a && a < len(verifNTNames))
	for _, p := range verifSimPairs {
		s, r := p[0], p[1]
		verifAssert(!ActionTable[s].canRecover, "no state of gocc's own parser is a recovery state")
		act, ok := ActionTable[s].Actions[typ]
		ref := 0
		for k := 0; k <= nt; k++ {
			if t == k {
				ref = verifRefAction[r][k]
			}
		}
		switch x := act.(type) {
		case nil:
			verifAssert(!ok && ref == 0, "no action in the shipped table iff none in the documented automaton")
		case Accept:
			verifAssert(ref == 1, "accept iff the documented automaton accepts")
		case Shift:
			verifAssert(ref >= 2 && verifInSim(int(x), ref-2), "shift iff the documented automaton shifts, into corresponding states")
		case Reduce:
			verifAssert(ref < 0 && int(x) < len(verifProdMap) && verifProdMap[int(x)] == -ref-1, "reduce iff the documented automaton reduces by the same production")
		}
		// goto
		name := ""
		for k := 0; k < len(verifNTNames); k++ {
			if a == k {
				name = verifNTNames[k]
			}
		}
		g, gok := GotoTable[s][NT(name)]
		rg := -1
		for k := 0; k < len(verifNTNames); k++ {
			if a == k {
				rg = verifRefGoto[r][k]
			}
		}
		if gok {
			verifAssert(rg >= 0 && verifInSim(int(g), rg), "goto entries correspond")
		} else {
			verifAssert(rg < 0, "no goto entry iff none in the documented automaton")
		}
	}
	verifCover("end")
}
