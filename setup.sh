#!/bin/sh
# Build the verification driver from files on disk only (offline).
set -e
cd /verif
export GOFLAGS=-mod=mod GOPROXY=off
mkdir -p bin evidence replays
go build -o bin/gv ./cmd/gv
echo "built /verif/bin/gv"
