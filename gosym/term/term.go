// Package term implements hash-consed QF_BV terms with local simplification,
// an SMT-LIB2 printer and a concrete evaluator.
package term

import (
	"fmt"
	"math/bits"
	"os"
)

type Op uint8

const (
	OConst Op = iota // BV constant (W>0) or Bool constant (W==0, Val 0/1)
	OVar
	ONot // bool
	OAnd // bool, binary
	OOr  // bool, binary
	OEq  // bool result, BV or Bool args
	OIte
	OAdd
	OSub
	OMul
	OUDiv
	OSDiv
	OURem
	OSRem
	OBvAnd
	OBvOr
	OBvXor
	OShl
	OLShr
	OAShr
	OBvNot
	ONeg
	OULt
	OULe
	OSLt
	OSLe
	OExtract // P1=hi, P2=lo
	OZExt    // to width W
	OSExt    // to width W
	OConcat
)

var opNames = map[Op]string{
	ONot: "not", OAnd: "and", OOr: "or", OEq: "=", OIte: "ite",
	OAdd: "bvadd", OSub: "bvsub", OMul: "bvmul", OUDiv: "bvudiv", OSDiv: "bvsdiv",
	OURem: "bvurem", OSRem: "bvsrem", OBvAnd: "bvand", OBvOr: "bvor", OBvXor: "bvxor",
	OShl: "bvshl", OLShr: "bvlshr", OAShr: "bvashr", OBvNot: "bvnot", ONeg: "bvneg",
	OULt: "bvult", OULe: "bvule", OSLt: "bvslt", OSLe: "bvsle", OConcat: "concat",
}

// Term is an immutable, hash-consed node. W==0 means Bool.
type Term struct {
	ID     int
	Op     Op
	W      int
	Args   []*Term
	Val    uint64
	P1, P2 int
	Name   string
	// constLeaves: the term is a constant or an ite tree whose leaves are all constants.
	constLeaves bool
	leafVals    []uint64 // distinct leaf constants (sorted), only when constLeaves
}

func (t *Term) IsConst() bool { return t.Op == OConst }
func (t *Term) IsBool() bool  { return t.W == 0 }
func (t *Term) IsTrue() bool  { return t.Op == OConst && t.W == 0 && t.Val == 1 }
func (t *Term) IsFalse() bool { return t.Op == OConst && t.W == 0 && t.Val == 0 }

// ConstLeaves reports whether t is an ite-tree over constants (or a constant).
func (t *Term) ConstLeaves() bool { return t.constLeaves }

// Int returns the constant as a sign-extended int64.
func (t *Term) Int() int64 {
	return sext(t.Val, t.W)
}

type key struct {
	op         Op
	w          int
	a0, a1, a2 int
	val        uint64
	p1, p2     int
	name       string
}

// Store owns all terms of one run.
type Store struct {
	tab    map[key]*Term
	raw    map[key]*Term // memo: unsimplified request -> simplified result
	nextID int
	True   *Term
	False  *Term
	Vars   []*Term
	varTab map[string]*Term
	// Stats
	Created int
}

func init() {
	if v := os.Getenv("GV_PUSH"); v != "" {
		fmt.Sscanf(v, "%d", &maxPushLeaves)
	}
}

func NewStore() *Store {
	s := &Store{tab: map[key]*Term{}, raw: map[key]*Term{}, varTab: map[string]*Term{}}
	s.True = s.intern(&Term{Op: OConst, W: 0, Val: 1, constLeaves: true, leafVals: []uint64{1}})
	s.False = s.intern(&Term{Op: OConst, W: 0, Val: 0, constLeaves: true, leafVals: []uint64{0}})
	return s
}

func mask(w int) uint64 {
	if w >= 64 {
		return ^uint64(0)
	}
	return (uint64(1) << uint(w)) - 1
}

func sext(v uint64, w int) int64 {
	if w == 0 {
		return int64(v)
	}
	if w >= 64 {
		return int64(v)
	}
	sh := uint(64 - w)
	return int64(v<<sh) >> sh
}

func mkkey(t *Term) key {
	k := key{op: t.Op, w: t.W, val: t.Val, p1: t.P1, p2: t.P2, name: t.Name, a0: -1, a1: -1, a2: -1}
	if len(t.Args) > 0 {
		k.a0 = t.Args[0].ID
	}
	if len(t.Args) > 1 {
		k.a1 = t.Args[1].ID
	}
	if len(t.Args) > 2 {
		k.a2 = t.Args[2].ID
	}
	return k
}

func (s *Store) intern(t *Term) *Term {
	k := mkkey(t)
	if x, ok := s.tab[k]; ok {
		return x
	}
	t.ID = s.nextID
	s.nextID++
	s.Created++
	if t.Op == OIte && t.Args[1].constLeaves && t.Args[2].constLeaves {
		if u := unionVals(t.Args[1].leafVals, t.Args[2].leafVals); len(u) <= maxLeafVals {
			t.constLeaves = true
			t.leafVals = u
		}
	}
	s.tab[k] = t
	return t
}

func (s *Store) Bool(b bool) *Term {
	if b {
		return s.True
	}
	return s.False
}

func (s *Store) Const(v uint64, w int) *Term {
	if w == 0 {
		return s.Bool(v != 0)
	}
	v &= mask(w)
	return s.intern(&Term{Op: OConst, W: w, Val: v, constLeaves: true, leafVals: []uint64{v}})
}

func (s *Store) ConstInt(v int64, w int) *Term { return s.Const(uint64(v), w) }

// Var returns the variable with this name, creating it at width w (0 = Bool).
func (s *Store) Var(name string, w int) *Term {
	if t, ok := s.varTab[name]; ok {
		if t.W != w {
			panic(fmt.Sprintf("term: variable %s redeclared with width %d (was %d)", name, w, t.W))
		}
		return t
	}
	t := s.intern(&Term{Op: OVar, W: w, Name: name})
	s.varTab[name] = t
	s.Vars = append(s.Vars, t)
	return t
}

var maxPushLeaves = 64

func (s *Store) mk(op Op, w int, p1, p2 int, args ...*Term) *Term {
	t := &Term{Op: op, W: w, Args: args, P1: p1, P2: p2}
	k := mkkey(t)
	if x, ok := s.raw[k]; ok {
		return x
	}
	r := s.simplify(t)
	s.raw[k] = r
	return r
}

func (s *Store) Not(a *Term) *Term {
	if a.W != 0 {
		panic("term: Not on non-bool")
	}
	return s.mk(ONot, 0, 0, 0, a)
}
func (s *Store) And(a, b *Term) *Term {
	if a.W != 0 || b.W != 0 {
		panic("term: And on non-bool")
	}
	return s.mk(OAnd, 0, 0, 0, a, b)
}
func (s *Store) Or(a, b *Term) *Term {
	if a.W != 0 || b.W != 0 {
		panic("term: Or on non-bool")
	}
	return s.mk(OOr, 0, 0, 0, a, b)
}
func (s *Store) AndN(ts ...*Term) *Term {
	r := s.True
	for _, t := range ts {
		r = s.And(r, t)
	}
	return r
}
func (s *Store) OrN(ts ...*Term) *Term {
	r := s.False
	for _, t := range ts {
		r = s.Or(r, t)
	}
	return r
}
func (s *Store) Implies(a, b *Term) *Term { return s.Or(s.Not(a), b) }
func (s *Store) Eq(a, b *Term) *Term {
	if a.W != b.W {
		panic(fmt.Sprintf("term: Eq width mismatch %d vs %d", a.W, b.W))
	}
	return s.mk(OEq, 0, 0, 0, a, b)
}
func (s *Store) Ne(a, b *Term) *Term { return s.Not(s.Eq(a, b)) }
func (s *Store) Ite(c, a, b *Term) *Term {
	if c.W != 0 {
		panic("term: Ite cond not bool")
	}
	if a.W != b.W {
		panic(fmt.Sprintf("term: Ite width mismatch %d vs %d", a.W, b.W))
	}
	return s.mk(OIte, a.W, 0, 0, c, a, b)
}
func (s *Store) Bin(op Op, a, b *Term) *Term {
	if a.W != b.W {
		panic(fmt.Sprintf("term: %s width mismatch %d vs %d", opNames[op], a.W, b.W))
	}
	w := a.W
	switch op {
	case OULt, OULe, OSLt, OSLe:
		w = 0
	}
	return s.mk(op, w, 0, 0, a, b)
}
func (s *Store) Add(a, b *Term) *Term { return s.Bin(OAdd, a, b) }
func (s *Store) Sub(a, b *Term) *Term { return s.Bin(OSub, a, b) }
func (s *Store) SLt(a, b *Term) *Term { return s.Bin(OSLt, a, b) }
func (s *Store) SLe(a, b *Term) *Term { return s.Bin(OSLe, a, b) }
func (s *Store) ULt(a, b *Term) *Term { return s.Bin(OULt, a, b) }
func (s *Store) ULe(a, b *Term) *Term { return s.Bin(OULe, a, b) }
func (s *Store) BvNot(a *Term) *Term  { return s.mk(OBvNot, a.W, 0, 0, a) }
func (s *Store) Neg(a *Term) *Term    { return s.mk(ONeg, a.W, 0, 0, a) }
func (s *Store) Extract(a *Term, hi, lo int) *Term {
	if hi == a.W-1 && lo == 0 {
		return a
	}
	return s.mk(OExtract, hi-lo+1, hi, lo, a)
}
func (s *Store) ZExt(a *Term, w int) *Term {
	if w == a.W {
		return a
	}
	return s.mk(OZExt, w, 0, 0, a)
}
func (s *Store) SExt(a *Term, w int) *Term {
	if w == a.W {
		return a
	}
	return s.mk(OSExt, w, 0, 0, a)
}
func (s *Store) Concat(hi, lo *Term) *Term { return s.mk(OConcat, hi.W+lo.W, 0, 0, hi, lo) }

// Resize converts a to width w, sign- or zero-extending or truncating.
func (s *Store) Resize(a *Term, w int, signed bool) *Term {
	switch {
	case w == a.W:
		return a
	case w < a.W:
		return s.Extract(a, w-1, 0)
	case signed:
		return s.SExt(a, w)
	default:
		return s.ZExt(a, w)
	}
}

// BoolToBV turns a Bool into a 1/0 bit-vector of width w.
func (s *Store) BoolToBV(a *Term, w int) *Term {
	return s.Ite(a, s.Const(1, w), s.Const(0, w))
}

func isNotOf(a, b *Term) bool { // a == not b
	return a.Op == ONot && a.Args[0] == b
}

func foldBin(op Op, w int, x, y uint64) (uint64, bool) {
	m := mask(w)
	sx, sy := sext(x, w), sext(y, w)
	switch op {
	case OAdd:
		return (x + y) & m, true
	case OSub:
		return (x - y) & m, true
	case OMul:
		return (x * y) & m, true
	case OUDiv:
		if y == 0 {
			return m, true
		}
		return (x / y) & m, true
	case OURem:
		if y == 0 {
			return x, true
		}
		return (x % y) & m, true
	case OSDiv:
		if y == 0 {
			if sx >= 0 {
				return m, true
			}
			return 1, true
		}
		if sy == -1 {
			return uint64(-sx) & m, true
		}
		return uint64(sx/sy) & m, true
	case OSRem:
		if y == 0 {
			return x, true
		}
		if sy == -1 {
			return 0, true
		}
		return uint64(sx%sy) & m, true
	case OBvAnd:
		return x & y, true
	case OBvOr:
		return x | y, true
	case OBvXor:
		return x ^ y, true
	case OShl:
		if y >= uint64(w) {
			return 0, true
		}
		return (x << y) & m, true
	case OLShr:
		if y >= uint64(w) {
			return 0, true
		}
		return (x >> y) & m, true
	case OAShr:
		if y >= uint64(w) {
			if sx < 0 {
				return m, true
			}
			return 0, true
		}
		return uint64(sx>>y) & m, true
	case OULt:
		return b2u(x < y), true
	case OULe:
		return b2u(x <= y), true
	case OSLt:
		return b2u(sx < sy), true
	case OSLe:
		return b2u(sx <= sy), true
	}
	return 0, false
}

func b2u(b bool) uint64 {
	if b {
		return 1
	}
	return 0
}

// pushable reports whether an operation with a constant other operand should be pushed
// into the ite tree t.
func pushable(t *Term) bool {
	return t.Op == OIte && t.constLeaves && len(t.leafVals) <= maxPushLeaves
}

const maxLeafVals = 64

func unionVals(a, b []uint64) []uint64 {
	out := make([]uint64, 0, len(a)+len(b))
	i, j := 0, 0
	for i < len(a) || j < len(b) {
		switch {
		case j >= len(b) || (i < len(a) && a[i] < b[j]):
			out = append(out, a[i])
			i++
		case i >= len(a) || b[j] < a[i]:
			out = append(out, b[j])
			j++
		default:
			out = append(out, a[i])
			i++
			j++
		}
	}
	return out
}

// LeafVals returns the distinct leaf constants of a constant-leaf ite tree.
func (t *Term) LeafVals() []uint64 { return t.leafVals }

func hasVal(vs []uint64, v uint64) bool {
	for _, x := range vs {
		if x == v {
			return true
		}
	}
	return false
}

func (s *Store) simplify(t *Term) *Term {
	a := t.Args
	switch t.Op {
	case ONot:
		x := a[0]
		if x.IsConst() {
			return s.Bool(x.Val == 0)
		}
		if x.Op == ONot {
			return x.Args[0]
		}
	case OAnd:
		x, y := a[0], a[1]
		if x.IsFalse() || y.IsFalse() {
			return s.False
		}
		if x.IsTrue() {
			return y
		}
		if y.IsTrue() {
			return x
		}
		if x == y {
			return x
		}
		if isNotOf(x, y) || isNotOf(y, x) {
			return s.False
		}
		// absorption: x and (x and z) = x and z ; x and (not x and z) = false (one level)
		if y.Op == OAnd {
			if y.Args[0] == x || y.Args[1] == x {
				return y
			}
			if isNotOf(y.Args[0], x) || isNotOf(x, y.Args[0]) || isNotOf(y.Args[1], x) || isNotOf(x, y.Args[1]) {
				return s.False
			}
		}
		if x.Op == OAnd {
			if x.Args[0] == y || x.Args[1] == y {
				return x
			}
			if isNotOf(x.Args[0], y) || isNotOf(y, x.Args[0]) || isNotOf(x.Args[1], y) || isNotOf(y, x.Args[1]) {
				return s.False
			}
		}
		// x and (x or z) = x
		if y.Op == OOr && (y.Args[0] == x || y.Args[1] == x) {
			return x
		}
		if x.Op == OOr && (x.Args[0] == y || x.Args[1] == y) {
			return y
		}
		if x.ID > y.ID {
			return s.mk(OAnd, 0, 0, 0, y, x)
		}
	case OOr:
		x, y := a[0], a[1]
		if x.IsTrue() || y.IsTrue() {
			return s.True
		}
		if x.IsFalse() {
			return y
		}
		if y.IsFalse() {
			return x
		}
		if x == y {
			return x
		}
		if isNotOf(x, y) || isNotOf(y, x) {
			return s.True
		}
		// (g and c) or (g and not c) = g
		if x.Op == OAnd && y.Op == OAnd {
			for i := 0; i < 2; i++ {
				for j := 0; j < 2; j++ {
					if x.Args[i] == y.Args[j] {
						p, q := x.Args[1-i], y.Args[1-j]
						if isNotOf(p, q) || isNotOf(q, p) {
							return x.Args[i]
						}
					}
				}
			}
		}
		// x or (x and z) = x ; x or (not x and z) = x or z
		if y.Op == OAnd {
			if y.Args[0] == x || y.Args[1] == x {
				return x
			}
			for i := 0; i < 2; i++ {
				if isNotOf(y.Args[i], x) || isNotOf(x, y.Args[i]) {
					return s.Or(x, y.Args[1-i])
				}
			}
		}
		if x.Op == OAnd {
			if x.Args[0] == y || x.Args[1] == y {
				return y
			}
			for i := 0; i < 2; i++ {
				if isNotOf(x.Args[i], y) || isNotOf(y, x.Args[i]) {
					return s.Or(y, x.Args[1-i])
				}
			}
		}
		if y.Op == OOr && (y.Args[0] == x || y.Args[1] == x) {
			return y
		}
		if x.Op == OOr && (x.Args[0] == y || x.Args[1] == y) {
			return x
		}
		if x.ID > y.ID {
			return s.mk(OOr, 0, 0, 0, y, x)
		}
	case OEq:
		x, y := a[0], a[1]
		if x == y {
			return s.True
		}
		if x.IsConst() && y.IsConst() {
			return s.Bool(x.Val == y.Val)
		}
		if x.W == 0 {
			if x.IsTrue() {
				return y
			}
			if y.IsTrue() {
				return x
			}
			if x.IsFalse() {
				return s.Not(y)
			}
			if y.IsFalse() {
				return s.Not(x)
			}
		}
		if y.IsConst() && x.constLeaves && !hasVal(x.leafVals, y.Val) {
			return s.False
		}
		if x.IsConst() && y.constLeaves && !hasVal(y.leafVals, x.Val) {
			return s.False
		}
		if y.IsConst() && pushable(x) {
			return s.Ite(x.Args[0], s.Eq(x.Args[1], y), s.Eq(x.Args[2], y))
		}
		if x.IsConst() && pushable(y) {
			return s.Ite(y.Args[0], s.Eq(x, y.Args[1]), s.Eq(x, y.Args[2]))
		}
		// ite with one constant branch against a constant
		if y.IsConst() && x.Op == OIte && (x.Args[1].IsConst() || x.Args[2].IsConst()) {
			return s.Ite(x.Args[0], s.Eq(x.Args[1], y), s.Eq(x.Args[2], y))
		}
		if x.IsConst() && y.Op == OIte && (y.Args[1].IsConst() || y.Args[2].IsConst()) {
			return s.Ite(y.Args[0], s.Eq(x, y.Args[1]), s.Eq(x, y.Args[2]))
		}
		// zext(x) == const
		if y.IsConst() && x.Op == OZExt {
			in := x.Args[0]
			if y.Val&^mask(in.W) != 0 {
				return s.False
			}
			return s.Eq(in, s.Const(y.Val, in.W))
		}
		if x.IsConst() && y.Op == OZExt {
			return s.Eq(y, x)
		}
		if x.ID > y.ID {
			return s.mk(OEq, 0, 0, 0, y, x)
		}
	case OIte:
		c, x, y := a[0], a[1], a[2]
		if c.IsTrue() {
			return x
		}
		if c.IsFalse() {
			return y
		}
		if x == y {
			return x
		}
		if c.Op == ONot {
			return s.Ite(c.Args[0], y, x)
		}
		if x.W == 0 {
			if x.IsTrue() && y.IsFalse() {
				return c
			}
			if x.IsFalse() && y.IsTrue() {
				return s.Not(c)
			}
			if x.IsTrue() {
				return s.Or(c, y)
			}
			if x.IsFalse() {
				return s.And(s.Not(c), y)
			}
			if y.IsTrue() {
				return s.Or(s.Not(c), x)
			}
			if y.IsFalse() {
				return s.And(c, x)
			}
		}
		// ite(c, ite(c, p, q), y) = ite(c, p, y)
		if x.Op == OIte && x.Args[0] == c {
			return s.Ite(c, x.Args[1], y)
		}
		if y.Op == OIte && y.Args[0] == c {
			return s.Ite(c, x, y.Args[2])
		}
		// ite(c, x, ite(d, x, z)) = ite(c or d, x, z)
		if y.Op == OIte && y.Args[1] == x {
			return s.Ite(s.Or(c, y.Args[0]), x, y.Args[2])
		}
		if x.Op == OIte && x.Args[2] == y {
			return s.Ite(s.And(c, x.Args[0]), x.Args[1], y)
		}
	case OAdd, OSub, OMul, OUDiv, OSDiv, OURem, OSRem, OBvAnd, OBvOr, OBvXor, OShl, OLShr, OAShr, OULt, OULe, OSLt, OSLe:
		x, y := a[0], a[1]
		if x.IsConst() && y.IsConst() {
			if v, ok := foldBin(t.Op, x.W, x.Val, y.Val); ok {
				return s.Const(v, t.W)
			}
		}
		if y.IsConst() && pushable(x) {
			return s.Ite(x.Args[0], s.Bin(t.Op, x.Args[1], y), s.Bin(t.Op, x.Args[2], y))
		}
		if x.IsConst() && pushable(y) {
			return s.Ite(y.Args[0], s.Bin(t.Op, x, y.Args[1]), s.Bin(t.Op, x, y.Args[2]))
		}
		if pushable(x) && pushable(y) && len(x.leafVals)*len(y.leafVals) <= 64 {
			return s.Ite(x.Args[0], s.Bin(t.Op, x.Args[1], y), s.Bin(t.Op, x.Args[2], y))
		}
		switch t.Op {
		case OAdd:
			if y.IsConst() && y.Val == 0 {
				return x
			}
			if x.IsConst() && x.Val == 0 {
				return y
			}
			// (x + c1) + c2
			if y.IsConst() && x.Op == OAdd && x.Args[1].IsConst() {
				return s.Add(x.Args[0], s.Const(x.Args[1].Val+y.Val, x.W))
			}
			if x.IsConst() {
				return s.mk(OAdd, t.W, 0, 0, y, x)
			}
		case OSub:
			if y.IsConst() && y.Val == 0 {
				return x
			}
			if x == y {
				return s.Const(0, t.W)
			}
			if y.IsConst() {
				return s.Add(x, s.Const(-y.Val, x.W))
			}
		case OMul:
			if y.IsConst() && y.Val == 1 {
				return x
			}
			if x.IsConst() && x.Val == 1 {
				return y
			}
			if (y.IsConst() && y.Val == 0) || (x.IsConst() && x.Val == 0) {
				return s.Const(0, t.W)
			}
		case OBvAnd:
			if x == y {
				return x
			}
			if (y.IsConst() && y.Val == 0) || (x.IsConst() && x.Val == 0) {
				return s.Const(0, t.W)
			}
			if y.IsConst() && y.Val == mask(t.W) {
				return x
			}
			if x.IsConst() && x.Val == mask(t.W) {
				return y
			}
		case OBvOr, OBvXor:
			if y.IsConst() && y.Val == 0 {
				return x
			}
			if x.IsConst() && x.Val == 0 {
				return y
			}
			if x == y {
				if t.Op == OBvOr {
					return x
				}
				return s.Const(0, t.W)
			}
		case OShl, OLShr, OAShr:
			if y.IsConst() && y.Val == 0 {
				return x
			}
		case OULt:
			if x == y {
				return s.False
			}
			if y.IsConst() && y.Val == 0 {
				return s.False
			}
		case OSLt:
			if x == y {
				return s.False
			}
		case OULe, OSLe:
			if x == y {
				return s.True
			}
		}
		// comparisons of zero-extended values against constants stay cheap
		if (t.Op == OSLt || t.Op == OSLe || t.Op == OULt || t.Op == OULe) && x.Op == OZExt && y.IsConst() && x.Args[0].W < x.W {
			in := x.Args[0]
			sy := sext(y.Val, y.W)
			signedOp := t.Op == OSLt || t.Op == OSLe
			if signedOp && sy < 0 {
				return s.False
			}
			if y.Val > mask(in.W) {
				return s.True
			}
			uop := t.Op
			if t.Op == OSLt {
				uop = OULt
			} else if t.Op == OSLe {
				uop = OULe
			}
			return s.Bin(uop, in, s.Const(y.Val, in.W))
		}
		if (t.Op == OSLt || t.Op == OSLe || t.Op == OULt || t.Op == OULe) && y.Op == OZExt && x.IsConst() && y.Args[0].W < y.W {
			in := y.Args[0]
			sx := sext(x.Val, x.W)
			signedOp := t.Op == OSLt || t.Op == OSLe
			if signedOp && sx < 0 {
				return s.True
			}
			if x.Val > mask(in.W) {
				return s.False
			}
			uop := t.Op
			if t.Op == OSLt {
				uop = OULt
			} else if t.Op == OSLe {
				uop = OULe
			}
			return s.Bin(uop, s.Const(x.Val, in.W), in)
		}
	case OBvNot:
		x := a[0]
		if x.IsConst() {
			return s.Const(^x.Val, t.W)
		}
		if pushable(x) {
			return s.Ite(x.Args[0], s.BvNot(x.Args[1]), s.BvNot(x.Args[2]))
		}
	case ONeg:
		x := a[0]
		if x.IsConst() {
			return s.Const(-x.Val, t.W)
		}
		if pushable(x) {
			return s.Ite(x.Args[0], s.Neg(x.Args[1]), s.Neg(x.Args[2]))
		}
	case OExtract:
		x := a[0]
		if x.IsConst() {
			return s.Const(x.Val>>uint(t.P2), t.W)
		}
		if pushable(x) {
			return s.Ite(x.Args[0], s.Extract(x.Args[1], t.P1, t.P2), s.Extract(x.Args[2], t.P1, t.P2))
		}
		if (x.Op == OZExt || x.Op == OSExt) && t.P2 == 0 {
			in := x.Args[0]
			if t.W == in.W {
				return in
			}
			if t.W < in.W {
				return s.Extract(in, t.P1, 0)
			}
			if x.Op == OZExt {
				return s.ZExt(in, t.W)
			}
			return s.SExt(in, t.W)
		}
		if x.Op == OExtract {
			return s.Extract(x.Args[0], t.P1+x.P2, t.P2+x.P2)
		}
	case OZExt:
		x := a[0]
		if x.IsConst() {
			return s.Const(x.Val, t.W)
		}
		if pushable(x) {
			return s.Ite(x.Args[0], s.ZExt(x.Args[1], t.W), s.ZExt(x.Args[2], t.W))
		}
		if x.Op == OZExt {
			return s.ZExt(x.Args[0], t.W)
		}
	case OSExt:
		x := a[0]
		if x.IsConst() {
			return s.Const(uint64(sext(x.Val, x.W)), t.W)
		}
		if pushable(x) {
			return s.Ite(x.Args[0], s.SExt(x.Args[1], t.W), s.SExt(x.Args[2], t.W))
		}
		if x.Op == OZExt && x.Args[0].W < x.W {
			return s.ZExt(x.Args[0], t.W)
		}
		if x.Op == OSExt {
			return s.SExt(x.Args[0], t.W)
		}
	case OConcat:
		x, y := a[0], a[1]
		if x.IsConst() && y.IsConst() {
			return s.Const(x.Val<<uint(y.W)|y.Val, t.W)
		}
	}
	return s.intern(t)
}

// Eval evaluates t under the assignment (variables missing from m are 0).
func Eval(t *Term, m map[string]uint64, memo map[*Term]uint64) uint64 {
	if v, ok := memo[t]; ok {
		return v
	}
	// iterative post-order to avoid deep recursion
	type fr struct {
		t *Term
		i int
	}
	stack := []fr{{t, 0}}
	for len(stack) > 0 {
		f := &stack[len(stack)-1]
		if _, ok := memo[f.t]; ok {
			stack = stack[:len(stack)-1]
			continue
		}
		// short-circuit ite: evaluate cond first, then only the chosen branch
		if f.t.Op == OIte {
			c := f.t.Args[0]
			cv, ok := memo[c]
			if !ok {
				stack = append(stack, fr{c, 0})
				continue
			}
			br := f.t.Args[2]
			if cv != 0 {
				br = f.t.Args[1]
			}
			bv, ok := memo[br]
			if !ok {
				stack = append(stack, fr{br, 0})
				continue
			}
			memo[f.t] = bv
			stack = stack[:len(stack)-1]
			continue
		}
		if f.i < len(f.t.Args) {
			ch := f.t.Args[f.i]
			f.i++
			if _, ok := memo[ch]; !ok {
				stack = append(stack, fr{ch, 0})
			}
			continue
		}
		memo[f.t] = evalNode(f.t, m, memo)
		stack = stack[:len(stack)-1]
	}
	return memo[t]
}

func evalNode(t *Term, m map[string]uint64, memo map[*Term]uint64) uint64 {
	switch t.Op {
	case OConst:
		return t.Val
	case OVar:
		v := m[t.Name]
		if t.W == 0 {
			return b2u(v != 0)
		}
		return v & mask(t.W)
	}
	a := func(i int) uint64 { return memo[t.Args[i]] }
	switch t.Op {
	case ONot:
		return b2u(a(0) == 0)
	case OAnd:
		return b2u(a(0) != 0 && a(1) != 0)
	case OOr:
		return b2u(a(0) != 0 || a(1) != 0)
	case OEq:
		return b2u(a(0) == a(1))
	case OBvNot:
		return ^a(0) & mask(t.W)
	case ONeg:
		return -a(0) & mask(t.W)
	case OExtract:
		return (a(0) >> uint(t.P2)) & mask(t.W)
	case OZExt:
		return a(0)
	case OSExt:
		return uint64(sext(a(0), t.Args[0].W)) & mask(t.W)
	case OConcat:
		return (a(0)<<uint(t.Args[1].W) | a(1)) & mask(t.W)
	}
	v, ok := foldBin(t.Op, t.Args[0].W, a(0), a(1))
	if !ok {
		panic("term: eval of unknown op")
	}
	return v
}

var _ = bits.Len
