package term

import (
	"bufio"
	"fmt"
	"io"
	"sort"
	"strings"
)

func sortName(w int) string {
	if w == 0 {
		return "Bool"
	}
	return fmt.Sprintf("(_ BitVec %d)", w)
}

func constText(t *Term) string {
	if t.W == 0 {
		if t.Val != 0 {
			return "true"
		}
		return "false"
	}
	if t.W%4 == 0 {
		return fmt.Sprintf("#x%0*x", t.W/4, t.Val)
	}
	return fmt.Sprintf("#b%0*b", t.W, t.Val)
}

// SymName returns the SMT-LIB symbol for a variable name.
func SymName(name string) string {
	return "|" + strings.NewReplacer("|", "_", "\\", "_").Replace(name) + "|"
}

// Printer emits terms as define-funs, each node once per printer.
type Printer struct {
	w       *bufio.Writer
	emitted map[int]bool
	vars    map[string]*Term
}

func NewPrinter(w io.Writer) *Printer {
	return &Printer{w: bufio.NewWriter(w), emitted: map[int]bool{}, vars: map[string]*Term{}}
}

func (p *Printer) Raw(s string) { p.w.WriteString(s) }
func (p *Printer) Flush() error { return p.w.Flush() }

func ref(t *Term) string {
	switch t.Op {
	case OConst:
		return constText(t)
	case OVar:
		return SymName(t.Name)
	}
	return fmt.Sprintf("t%d", t.ID)
}

// Define makes sure t and everything below it is defined; returns the reference text.
func (p *Printer) Define(t *Term) string {
	type fr struct {
		t *Term
		i int
	}
	if t.Op == OConst {
		return ref(t)
	}
	stack := []fr{{t, 0}}
	for len(stack) > 0 {
		f := &stack[len(stack)-1]
		if p.emitted[f.t.ID] || f.t.Op == OConst {
			stack = stack[:len(stack)-1]
			continue
		}
		if f.i < len(f.t.Args) {
			ch := f.t.Args[f.i]
			f.i++
			if !p.emitted[ch.ID] && ch.Op != OConst {
				stack = append(stack, fr{ch, 0})
			}
			continue
		}
		p.emit(f.t)
		p.emitted[f.t.ID] = true
		stack = stack[:len(stack)-1]
	}
	return ref(t)
}

func (p *Printer) emit(t *Term) {
	if t.Op == OVar {
		fmt.Fprintf(p.w, "(declare-const %s %s)\n", SymName(t.Name), sortName(t.W))
		p.vars[t.Name] = t
		return
	}
	var e string
	switch t.Op {
	case OExtract:
		e = fmt.Sprintf("((_ extract %d %d) %s)", t.P1, t.P2, ref(t.Args[0]))
	case OZExt:
		e = fmt.Sprintf("((_ zero_extend %d) %s)", t.W-t.Args[0].W, ref(t.Args[0]))
	case OSExt:
		e = fmt.Sprintf("((_ sign_extend %d) %s)", t.W-t.Args[0].W, ref(t.Args[0]))
	default:
		var b strings.Builder
		b.WriteString("(")
		b.WriteString(opNames[t.Op])
		for _, a := range t.Args {
			b.WriteString(" ")
			b.WriteString(ref(a))
		}
		b.WriteString(")")
		e = b.String()
	}
	fmt.Fprintf(p.w, "(define-fun t%d () %s %s)\n", t.ID, sortName(t.W), e)
}

// Assert emits (assert t).
func (p *Printer) Assert(t *Term) {
	r := p.Define(t)
	fmt.Fprintf(p.w, "(assert %s)\n", r)
}

// VarNames returns the declared variables in sorted order.
func (p *Printer) VarNames() []string {
	var ns []string
	for n := range p.vars {
		ns = append(ns, n)
	}
	sort.Strings(ns)
	return ns
}

// WriteQuery writes a complete one-shot query: conjunction of asserts, check-sat, get-value.
func WriteQuery(w io.Writer, logic string, asserts []*Term, wantModel bool) error {
	p := NewPrinter(w)
	if logic != "" {
		p.Raw("(set-logic " + logic + ")\n")
	}
	if wantModel {
		p.Raw("(set-option :produce-models true)\n")
	}
	for _, a := range asserts {
		p.Assert(a)
	}
	p.Raw("(check-sat)\n")
	if wantModel {
		ns := p.VarNames()
		if len(ns) > 0 {
			p.Raw("(get-value (")
			for _, n := range ns {
				p.Raw(SymName(n) + " ")
			}
			p.Raw("))\n")
		}
	}
	return p.Flush()
}

// Size returns the number of distinct DAG nodes under the given roots.
func Size(roots ...*Term) int {
	seen := map[int]bool{}
	var st []*Term
	st = append(st, roots...)
	n := 0
	for len(st) > 0 {
		t := st[len(st)-1]
		st = st[:len(st)-1]
		if seen[t.ID] {
			continue
		}
		seen[t.ID] = true
		n++
		st = append(st, t.Args...)
	}
	return n
}

// String renders small terms for diagnostics.
func (t *Term) String() string {
	return t.str(0)
}

func (t *Term) str(d int) string {
	if t == nil {
		return "<nil>"
	}
	switch t.Op {
	case OConst:
		if t.W == 0 {
			return constText(t)
		}
		return fmt.Sprintf("%d:%d", sext(t.Val, t.W), t.W)
	case OVar:
		return t.Name
	}
	if d > 6 {
		return fmt.Sprintf("t%d", t.ID)
	}
	var b strings.Builder
	b.WriteString("(")
	switch t.Op {
	case OExtract:
		fmt.Fprintf(&b, "extract[%d:%d]", t.P1, t.P2)
	case OZExt:
		fmt.Fprintf(&b, "zext%d", t.W)
	case OSExt:
		fmt.Fprintf(&b, "sext%d", t.W)
	default:
		b.WriteString(opNames[t.Op])
	}
	for _, a := range t.Args {
		b.WriteString(" ")
		b.WriteString(a.str(d + 1))
	}
	b.WriteString(")")
	return b.String()
}
