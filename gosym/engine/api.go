package engine

import (
	"fmt"
	"os"
	"sort"
	"strings"
	"sync"
	"time"

	"golang.org/x/tools/go/packages"
	"golang.org/x/tools/go/ssa"
	"golang.org/x/tools/go/ssa/ssautil"

	"verif/gosym/solver"
	"verif/gosym/term"
)

type LoadCfg struct {
	Dir      string
	Patterns []string
	Overlay  map[string][]byte
	Tags     string
	Env      []string
}

// LoadProgram loads packages (with dependencies) and builds SSA for all of them.
func LoadProgram(c LoadCfg) (*ssa.Program, []*packages.Package, error) {
	cfg := &packages.Config{
		Mode:    packages.LoadAllSyntax,
		Dir:     c.Dir,
		Overlay: c.Overlay,
		Env:     append(os.Environ(), c.Env...),
	}
	if c.Tags != "" {
		cfg.BuildFlags = []string{"-tags=" + c.Tags}
	}
	pkgs, err := packages.Load(cfg, c.Patterns...)
	if err != nil {
		return nil, nil, err
	}
	var errs []string
	packages.Visit(pkgs, nil, func(p *packages.Package) {
		for _, e := range p.Errors {
			errs = append(errs, e.Error())
		}
	})
	if len(errs) > 0 {
		return nil, nil, fmt.Errorf("package errors:\n%s", strings.Join(errs, "\n"))
	}
	prog, _ := ssautil.AllPackages(pkgs, ssa.InstantiateGenerics)
	prog.Build()
	return prog, pkgs, nil
}

// Run executes the harness function fn from an empty state.
func (e *Engine) Run(fn *ssa.Function) (final *St, err error) {
	defer func() {
		if r := recover(); r != nil {
			if u, ok := r.(unsupportedErr); ok {
				err = fmt.Errorf("UNSUPPORTED %s", u.msg)
				return
			}
			if u, ok := r.(*unwind); ok {
				err = fmt.Errorf("UNSUPPORTED panic of the program under analysis (%s at %s) escaped every frame with deferred calls", u.msg, u.pos)
				return
			}
			// any other failure inside the engine makes this job inconclusive, not the whole check
			err = fmt.Errorf("UNSUPPORTED engine failure: %v at %s", r, e.where())
		}
	}()
	st := &St{pc: e.S.True, heap: newHeap(), env: map[ssa.Value]Value{}}
	if fn.Pkg != nil {
		e.ensureInit(fn.Pkg)
	}
	e.CallFunc(st, fn, nil, nil)
	return st, nil
}

// Obligation is one solver query with the expected answer.
type Obligation struct {
	Name   string
	Kind   string // assert, panic, unwind, cover, shared-write, exit
	Expect string // "unsat" or "sat"
	Cond   *T
	Rec    Record
	Count  int // number of recorded events folded into this query
}

type Outcome struct {
	Ob     Obligation
	Res    solver.Result
	OK     bool
	Status string
}

// Obligations lists the recorded events as queries. Assertions are grouped by (message,
// position) and cover points by name: one query for the disjunction over all the paths and
// loop passes that reached the same source location (a model then names one of them).
func (e *Engine) Obligations(prefix string) []Obligation {
	var obs []Obligation
	group := func(kind, expect string, recs []Record, keyPos bool) {
		idx := map[string]int{}
		for _, r := range recs {
			k := r.Msg
			if keyPos {
				k += "@" + r.Pos
			}
			if i, ok := idx[k]; ok {
				obs[i].Cond = e.S.Or(obs[i].Cond, r.Cond)
				obs[i].Count++
				continue
			}
			idx[k] = len(obs)
			obs = append(obs, Obligation{Name: fmt.Sprintf("%s%s%03d", prefix, kind, len(idx)-1), Kind: kind, Expect: expect, Cond: r.Cond, Rec: r, Count: 1})
		}
	}
	add := func(kind, expect string, recs []Record) {
		for i, r := range recs {
			obs = append(obs, Obligation{Name: fmt.Sprintf("%s%s%03d", prefix, kind, i), Kind: kind, Expect: expect, Cond: r.Cond, Rec: r, Count: 1})
		}
	}
	group("assert", "unsat", e.Asserts, true)
	group("panic", "unsat", e.Panics, true)
	group("unwind", "unsat", e.Unwinds, true)
	group("cover", "sat", e.Covers, false)
	add("sharedwrite", "unsat", e.SharedWrite)
	return obs
}

// Discharge decides the obligations in parallel. Trivially decided ones do not reach the solver.
func (e *Engine) Discharge(obs []Obligation, be solver.Backend, dir string, timeoutS, par int) []Outcome {
	out := make([]Outcome, len(obs))
	var wg sync.WaitGroup
	sem := make(chan struct{}, par)
	for i := range obs {
		ob := obs[i]
		out[i].Ob = ob
		if ob.Cond.IsFalse() {
			out[i].Res = solver.Result{Status: "unsat", Solver: "folded"}
			out[i].Status = "unsat"
			out[i].OK = ob.Expect == "unsat"
			continue
		}
		if ob.Cond.IsTrue() && len(e.Axioms) == 0 {
			out[i].Res = solver.Result{Status: "sat", Solver: "folded", Model: map[string]uint64{}}
			out[i].Status = "sat"
			out[i].OK = ob.Expect == "sat"
			continue
		}
		wg.Add(1)
		sem <- struct{}{}
		go func(i int) {
			defer wg.Done()
			defer func() { <-sem }()
			asserts := append([]*T{}, e.relevantAxioms(ob.Cond)...)
			asserts = append(asserts, ob.Cond)
			t0 := time.Now()
			r := solver.Check(be, dir, ob.Name, asserts, timeoutS, true)
			_ = t0
			out[i].Res = r
			out[i].Status = r.Status
			out[i].OK = r.Status == ob.Expect
		}(i)
	}
	wg.Wait()
	return out
}

// relevantAxioms: Ackermann constraints mentioning only variables... (all of them: cheap and safe).
func (e *Engine) relevantAxioms(c *T) []*T { return e.Axioms }

// ModelValues converts a solver model to signed replay values for the nondet variables.
func (e *Engine) ModelValues(m map[string]uint64) map[string]int64 {
	out := map[string]int64{}
	for _, nd := range e.Nondets {
		v := m[nd.Name]
		if nd.W > 0 && nd.W < 64 && nd.Signed && v&(1<<uint(nd.W-1)) != 0 {
			v |= ^uint64(0) << uint(nd.W)
		}
		out[nd.Name] = int64(v)
	}
	return out
}

type UFRow struct {
	Args []int64
	Res  int64
}

// UFTables evaluates every recorded application of every uninterpreted function under m.
func (e *Engine) UFTables(m map[string]uint64) map[string][]UFRow {
	out := map[string][]UFRow{}
	memo := map[*T]uint64{}
	names := e.UFNames()
	sort.Strings(names)
	for _, n := range names {
		args, res := e.UFCalls(n)
		for i := range args {
			row := UFRow{}
			for _, a := range args[i] {
				row.Args = append(row.Args, int64(term.Eval(a, m, memo)))
			}
			row.Res = int64(term.Eval(res[i], m, memo))
			out[n] = append(out[n], row)
		}
	}
	return out
}

// EvalBool evaluates a condition under a model.
func EvalTerm(t *T, m map[string]uint64) uint64 {
	return term.Eval(t, m, map[*T]uint64{})
}

// DischargeBatched first asks ONE query for the disjunction of all conditions that are expected
// to be unsatisfiable (assertion violations, runtime panics, unwinding, shared writes) — on a
// tree where the property holds that single unsat answer discharges all of them. Only if the
// batch is not unsat are the members decided one by one (to name the failing one and to get a
// model per assertion). Cover points (expected sat) are always decided individually.
func (e *Engine) DischargeBatched(obs []Obligation, be solver.Backend, dir string, timeoutS, par int) []Outcome {
	var batch, rest []Obligation
	var folded []Outcome
	for _, ob := range obs {
		switch {
		case ob.Expect == "unsat" && ob.Cond.IsFalse():
			folded = append(folded, Outcome{Ob: ob, Res: solver.Result{Status: "unsat", Solver: "folded"}, Status: "unsat", OK: true})
		case ob.Expect == "unsat":
			batch = append(batch, ob)
		default:
			rest = append(rest, ob)
		}
	}
	outs := folded
	if len(batch) > 1 {
		any := e.S.False
		for _, ob := range batch {
			any = e.S.Or(any, ob.Cond)
		}
		bob := Obligation{Name: batch[0].Name + "_batch", Kind: "batch", Expect: "unsat", Cond: any,
			Rec: Record{Msg: fmt.Sprintf("any of %d unsat-expected conditions (assertions, panics, unwinding) reachable", len(batch)), Kind: "batch"}}
		done := make(chan []Outcome, 1)
		go func() { done <- e.Discharge([]Obligation{bob}, be, dir, timeoutS, 1) }()
		restOut := e.Discharge(rest, be, dir, timeoutS, par)
		bo := <-done
		outs = append(outs, restOut...)
		if bo[0].OK {
			share := bo[0].Res.Seconds / float64(len(batch))
			for _, ob := range batch {
				outs = append(outs, Outcome{Ob: ob, Res: solver.Result{Status: "unsat", Solver: bo[0].Res.Solver + " (batch of " + fmt.Sprint(len(batch)) + ")", Seconds: share}, Status: "unsat", OK: true})
			}
		} else {
			outs = append(outs, e.Discharge(batch, be, dir, timeoutS, par)...)
		}
		return outs
	}
	return append(outs, e.Discharge(append(batch, rest...), be, dir, timeoutS, par)...)
}
