package engine

import (
	"strings"
	"fmt"
	"go/constant"
	"go/token"
	"go/types"

	"golang.org/x/tools/go/ssa"

	"verif/gosym/term"
)

func (e *Engine) val(st *St, v ssa.Value) Value {
	switch x := v.(type) {
	case *ssa.Const:
		return e.constVal(x)
	case *ssa.Global:
		return e.ptrTo(e.globalObj(x))
	case *ssa.Function:
		return &FuncV{Alts: []FuncAlt{{G: e.S.True, Fn: x}}}
	case *ssa.Builtin:
		e.unsupported("builtin as value " + x.Name())
	}
	r, ok := st.env[v]
	if !ok {
		panic(fmt.Sprintf("engine: value %s (%T) of %v not in environment at %s", v.Name(), v, v.Parent(), e.where()))
	}
	return r
}

func (e *Engine) constVal(c *ssa.Const) Value {
	t := c.Type()
	if c.Value == nil {
		return e.Zero(t)
	}
	if w, signed, ok := intInfo(t); ok {
		if signed {
			i, _ := constant.Int64Val(constant.ToInt(c.Value))
			return e.S.ConstInt(i, w)
		}
		u, _ := constant.Uint64Val(constant.ToInt(c.Value))
		return e.S.Const(u, w)
	}
	if isBoolType(t) {
		return e.S.Bool(constant.BoolVal(c.Value))
	}
	if isStringType(t) {
		return e.constString(constant.StringVal(c.Value))
	}
	return &OpaqueV{What: "const " + c.Value.String()}
}

func (e *Engine) globalObj(g *ssa.Global) ObjID {
	if id, ok := e.globals[g]; ok {
		return id
	}
	e.nextObj++
	id := e.nextObj
	e.base[id] = e.Zero(g.Type().(*types.Pointer).Elem())
	e.globals[g] = id
	e.sharedObjs[id] = true
	e.ensureInit(g.Pkg)
	return id
}

// ensureInit runs the package initialiser concretely; its effects go to the base heap.
func (e *Engine) ensureInit(pkg *ssa.Package) {
	if pkg == nil || e.inited[pkg] {
		return
	}
	e.inited[pkg] = true
	if e.Cfg.InitPkgs == nil || !e.Cfg.InitPkgs(pkg.Pkg.Path()) {
		return
	}
	initFn := pkg.Func("init")
	if initFn == nil || initFn.Blocks == nil {
		return
	}
	savedCur, savedStack, savedPos := e.cur, e.stack, e.posStack
	savedTrack := e.TrackWrites
	e.TrackWrites = false
	e.stack, e.posStack = nil, nil
	e.booting++
	defer func() {
		e.booting--
		e.cur, e.stack, e.posStack = savedCur, savedStack, savedPos
		e.TrackWrites = savedTrack
	}()
	st := &St{pc: e.S.True, heap: newHeap(), env: map[ssa.Value]Value{}}
	e.CallFunc(st, initFn, nil, nil)
	for id, v := range st.heap.all() {
		e.base[id] = v
		e.sharedObjs[id] = true
	}
}

func (e *Engine) toInt64(v Value, t types.Type) *T {
	x := v.(*T)
	_, signed, _ := intInfo(t)
	return e.S.Resize(x, 64, signed)
}

func (e *Engine) execBlock(fr *frame, b *ssa.BasicBlock, st *St, deliver func(from, to *ssa.BasicBlock, s *St)) {
	e.Blocks++
	e.execBlockFrom(fr, b, 0, st, deliver)
}

// forkCallee: a static call from a fork-mode frame to a fork-mode function keeps the callee's
// paths separate in the caller as well.
func (e *Engine) forkCallee(fr *frame, in ssa.Instruction) *ssa.Function {
	if !fr.forkMode {
		return nil
	}
	c, ok := in.(*ssa.Call)
	if !ok || c.Common().IsInvoke() {
		return nil
	}
	fn := c.Common().StaticCallee()
	if fn == nil || fn.Blocks == nil || !e.isFork(fn) || len(fn.FreeVars) > 0 {
		return nil
	}
	if _, stubbed := e.Cfg.Intrinsics[fn.String()]; stubbed {
		return nil
	}
	if _, stubbed := builtinIntrinsics[fn.String()]; stubbed {
		return nil
	}
	if _, stubbed := verifIntrinsics[fn.Name()]; stubbed && strings.HasPrefix(fn.Name(), "verif") {
		return nil
	}
	return fn
}

// callUnderDefers executes a call instruction of a frame that has deferred calls pending and
// catches a panic of the program under analysis raised below it. It reports whether the path
// ended here (the panic was recovered and the function returned, or the panic went on).
func (e *Engine) callUnderDefers(fr *frame, st *St, x ssa.Value) (ended bool) {
	splits0 := e.splits
	savedStack, savedPos, savedCur := e.stack, e.posStack, e.cur
	var u *unwind
	func() {
		defer func() {
			if r := recover(); r != nil {
				uw, ok := r.(*unwind)
				if !ok {
					panic(r)
				}
				u = uw
			}
		}()
		st.env[x] = e.evalInstr(fr, st, x)
	}()
	if u == nil {
		return false
	}
	e.stack, e.posStack, e.cur = savedStack, savedPos, savedCur
	if e.splits != splits0 {
		e.unsupported("panic below a function with deferred calls after the execution had branched (other paths would be lost)")
	}
	// the panicking state continues this path: take over its condition and memory
	st.pc, st.heap = u.st.pc, u.st.heap
	e.panicInFrame(fr, st, u)
	return true
}

func (e *Engine) execBlockFrom(fr *frame, b *ssa.BasicBlock, start int, st *St, deliver func(from, to *ssa.BasicBlock, s *St)) {
	top := len(e.posStack) - 1
	for idx := start; idx < len(b.Instrs); idx++ {
		in := b.Instrs[idx]
		if st.pc.IsFalse() {
			return
		}
		e.cur = st
		e.Instrs++
		if e.Instrs > e.Cfg.MaxInstr {
			e.unsupported("instruction budget exhausted")
		}
		if p := in.Pos(); p.IsValid() {
			e.posStack[top] = p
		}
		if fr.forkMode && e.booting == 0 {
			// fork mode keeps indices concrete: an index whose value is a small ite tree over
			// constants splits the path, one continuation per feasible leaf value
			var ixv ssa.Value
			switch x := in.(type) {
			case *ssa.IndexAddr:
				ixv = x.Index
			case *ssa.Index:
				ixv = x.Index
			}
			if ixv != nil {
				if _, isConst := ixv.(*ssa.Const); !isConst {
					if t, ok := e.val(st, ixv).(*T); ok && !t.IsConst() && t.ConstLeaves() && len(t.LeafVals()) >= 2 && len(t.LeafVals()) <= 32 {
						leaves := t.LeafVals()
						for k, lv := range leaves {
							c := e.S.Const(lv, t.W)
							pc := e.S.And(st.pc, e.S.Eq(t, c))
							if pc.IsFalse() || !e.feasible(pc) {
								continue
							}
							var cont *St
							if k == len(leaves)-1 {
								cont = st
							} else {
								cont = st.fork()
								e.splits++
							}
							cont.pc = pc
							cont.env[ixv] = c
							e.execBlockFrom(fr, b, idx, cont, deliver)
						}
						return
					}
				}
			}
		}
		if rg, isRange := in.(*ssa.Range); isRange && fr.forkMode && e.booting == 0 && e.permMode(st) == 1 {
			// "one range over a map visits its entries in another order" (armed by the harness):
			// this execution of the range statement is the permuted one on the forked paths (one
			// per order tried), and stays in natural order on the path that continues here
			if mv, ok := e.val(st, rg.X).(*MapV); ok {
				mc, _ := e.mapContent(st, mv)
				n, concrete := len(mc.E), true
				for _, en := range mc.E {
					if !en.P.IsTrue() {
						concrete = false
					}
				}
				if n >= 2 && concrete {
					for _, perm := range mapOrders(n) {
						cont := st.fork()
						e.splits++
						cont.heap.set(permObj, e.c64(2))
						pos := e.newObj(cont.heap, e.c64(0))
						cont.env[rg] = &IterV{Map: mc, Pos: pos, Perm: perm}
						e.PermutedRanges++
						e.execBlockFrom(fr, b, idx+1, cont, deliver)
					}
				}
			}
		}
		if fn := e.forkCallee(fr, in); fn != nil {
			call := in.(*ssa.Call)
			args := make([]Value, len(call.Call.Args))
			for i, a := range call.Call.Args {
				args[i] = e.val(st, a)
			}
			var rets []retRec
			if fr.hasDefer && e.booting == 0 {
				splits0 := e.splits
				savedStack, savedPos, savedCur := e.stack, e.posStack, e.cur
				var u *unwind
				func() {
					defer func() {
						if r := recover(); r != nil {
							uw, ok := r.(*unwind)
							if !ok {
								panic(r)
							}
							u = uw
						}
					}()
					rets = e.callMulti(st, fn, args, nil)
				}()
				if u != nil {
					e.stack, e.posStack, e.cur = savedStack, savedPos, savedCur
					if e.splits != splits0 {
						e.unsupported("panic below a function with deferred calls after the execution had branched (other paths would be lost)")
					}
					st.pc, st.heap = u.st.pc, u.st.heap
					e.panicInFrame(fr, st, u)
					return
				}
			} else {
				rets = e.callMulti(st, fn, args, nil)
			}
			for k, r := range rets {
				if r.st.pc.IsFalse() {
					continue
				}
				var cont *St
				if k == len(rets)-1 {
					cont = st
				} else {
					cont = &St{env: make(map[ssa.Value]Value, len(st.env)+8)}
					for kk, vv := range st.env {
						cont.env[kk] = vv
					}
				}
				cont.pc, cont.heap = r.st.pc, r.st.heap
				cont.env[call] = pack(r.vals)
				e.execBlockFrom(fr, b, idx+1, cont, deliver)
			}
			return
		}
		switch x := in.(type) {
		case *ssa.Phi:
			continue
		case *ssa.DebugRef:
			continue
		case *ssa.Jump:
			deliver(b, b.Succs[0], st)
			return
		case *ssa.If:
			c := e.val(st, x.Cond).(*T)
			if c.IsTrue() {
				deliver(b, b.Succs[0], st)
				return
			}
			if c.IsFalse() {
				deliver(b, b.Succs[1], st)
				return
			}
			tpc, fpc := e.S.And(st.pc, c), e.S.And(st.pc, e.S.Not(c))
			if (e.Cfg.PruneBranch || fr.forkMode) && e.booting == 0 {
				if !tpc.IsFalse() && !e.feasible(tpc) {
					tpc = e.S.False
				}
				if !fpc.IsFalse() && !tpc.IsFalse() && !e.feasible(fpc) {
					fpc = e.S.False
				}
			}
			if tpc.IsFalse() {
				st.pc = fpc
				deliver(b, b.Succs[1], st)
				return
			}
			if fpc.IsFalse() {
				st.pc = tpc
				deliver(b, b.Succs[0], st)
				return
			}
			f := st.fork()
			e.splits++
			st.pc, f.pc = tpc, fpc
			deliver(b, b.Succs[0], st)
			deliver(b, b.Succs[1], f)
			return
		case *ssa.Return:
			vals := make([]Value, len(x.Results))
			for i, r := range x.Results {
				vals[i] = e.val(st, r)
			}
			fr.returns = append(fr.returns, retRec{st: st, vals: vals})
			return
		case *ssa.Panic:
			msg := "panic"
			if mi, ok := x.X.(*ssa.MakeInterface); ok {
				if c, ok := mi.X.(*ssa.Const); ok && c.Value != nil {
					msg = "panic: " + c.Value.ExactString()
				}
			}
			if e.deferFrames > 0 && e.booting == 0 {
				e.panicInFrame(fr, st, &unwind{val: e.val(st, x.X), st: st, msg: msg, pos: e.posStr(x.Pos()), stk: e.where()})
				return
			}
			e.Panics = append(e.Panics, Record{Cond: st.pc, Msg: msg, Pos: e.posStr(x.Pos()), Stack: e.where(), Kind: "explicit-panic"})
			st.pc = e.S.False
			return
		case *ssa.Store:
			e.Store(st, e.val(st, x.Addr).(*PtrV), e.val(st, x.Val), "store")
		case *ssa.MapUpdate:
			e.mapUpdate(st, e.val(st, x.Map).(*MapV), e.val(st, x.Key), e.val(st, x.Value))
		case *ssa.RunDefers:
			e.runDefers(fr, st)
		case *ssa.Defer:
			if x.Call.IsInvoke() {
				e.unsupported("defer of an interface method call")
			}
			d := deferRec{call: &x.Call}
			for _, a := range x.Call.Args {
				d.args = append(d.args, e.val(st, a))
			}
			switch f := x.Call.Value.(type) {
			case *ssa.Function:
				d.fn = f
			case *ssa.Builtin:
				e.unsupported("defer of a builtin")
			default:
				fv, ok := e.val(st, x.Call.Value).(*FuncV)
				if !ok {
					e.unsupported("defer of an unknown function value")
				}
				d.fv = fv
			}
			st.env[fr.fn] = &deferList{recs: append(append([]deferRec{}, fr.defers(st)...), d)}
			e.deferFrames++
		case *ssa.Go:
			e.unsupported("go statement")
		case *ssa.Send, *ssa.Select:
			e.unsupported("channel operation")
		case ssa.Value:
			if _, isCall := x.(*ssa.Call); isCall && fr.hasDefer && e.booting == 0 {
				if e.callUnderDefers(fr, st, x) {
					return
				}
				continue
			}
			v := e.evalInstr(fr, st, x)
			st.env[x] = v
		default:
			e.unsupported(fmt.Sprintf("instruction %T", in))
		}
	}
}

func (e *Engine) evalInstr(fr *frame, st *St, in ssa.Value) Value {
	switch x := in.(type) {
	case *ssa.Alloc:
		id := e.newObj(st.heap, e.Zero(x.Type().(*types.Pointer).Elem()))
		return e.ptrTo(id)
	case *ssa.BinOp:
		return e.binop(st, x.Op, e.val(st, x.X), e.val(st, x.Y), x.X.Type(), x.Y.Type())
	case *ssa.UnOp:
		v := e.val(st, x.X)
		switch x.Op {
		case token.NOT:
			return e.S.Not(v.(*T))
		case token.SUB:
			if t, ok := v.(*T); ok {
				return e.S.Neg(t)
			}
			return &OpaqueV{What: "float"}
		case token.XOR:
			return e.S.BvNot(v.(*T))
		case token.MUL:
			r := e.Load(st, v.(*PtrV), "load")
			if r == nil {
				return e.Zero(x.Type())
			}
			return r
		}
		e.unsupported("unary op " + x.Op.String())
	case *ssa.Call:
		return e.execCall(st, x.Common())
	case *ssa.ChangeType:
		return e.val(st, x.X)
	case *ssa.ChangeInterface:
		return e.val(st, x.X)
	case *ssa.Convert:
		return e.convert(st, e.val(st, x.X), x.X.Type(), x.Type())
	case *ssa.Extract:
		return e.val(st, x.Tuple).(*TupleV).V[x.Index]
	case *ssa.Field:
		return e.val(st, x.X).(*StructV).F[x.Field]
	case *ssa.FieldAddr:
		p := e.val(st, x.X).(*PtrV)
		e.panicIf(st, e.ptrIsNil(p), "nil pointer dereference (field address)")
		return e.extend(p, PathElem{Field: x.Field})
	case *ssa.Index:
		i := e.toInt64(e.val(st, x.Index), x.Index.Type())
		switch a := e.val(st, x.X).(type) {
		case *ArrayV:
			e.boundsCheck(st, i, e.c64(int64(len(a.E))), "index out of range")
			return e.loadPath(a, []PathElem{{Idx: i}})
		case *SliceV: // string
			e.boundsCheck(st, i, a.Len, "index out of range")
			return e.byteAt(st, a, i)
		}
		e.unsupported("Index on " + x.X.Type().String())
	case *ssa.IndexAddr:
		i := e.toInt64(e.val(st, x.Index), x.Index.Type())
		switch a := e.val(st, x.X).(type) {
		case *SliceV:
			e.boundsCheck(st, i, a.Len, "index out of range")
			return e.elemPtr(a, i)
		case *PtrV:
			n := x.X.Type().Underlying().(*types.Pointer).Elem().Underlying().(*types.Array).Len()
			e.panicIf(st, e.ptrIsNil(a), "nil pointer dereference (array index)")
			e.boundsCheck(st, i, e.c64(n), "index out of range")
			return e.extend(a, PathElem{Idx: i})
		}
		e.unsupported("IndexAddr on " + x.X.Type().String())
	case *ssa.Lookup:
		if m, ok := e.val(st, x.X).(*MapV); ok {
			v, present := e.mapLookup(st, m, e.val(st, x.Index), x.X.Type().Underlying().(*types.Map).Elem())
			if x.CommaOk {
				return &TupleV{V: []Value{v, present}}
			}
			return v
		}
		s := e.val(st, x.X).(*SliceV)
		i := e.toInt64(e.val(st, x.Index), x.Index.Type())
		e.boundsCheck(st, i, s.Len, "string index out of range")
		return e.byteAt(st, s, i)
	case *ssa.MakeInterface:
		return &IfaceV{Alts: []IfaceAlt{{G: e.S.True, T: x.X.Type(), V: e.val(st, x.X)}}}
	case *ssa.MakeClosure:
		b := make([]Value, len(x.Bindings))
		for i, bv := range x.Bindings {
			b[i] = e.val(st, bv)
		}
		return &FuncV{Alts: []FuncAlt{{G: e.S.True, Fn: x.Fn.(*ssa.Function), Bind: b}}}
	case *ssa.MakeSlice:
		ln := e.toInt64(e.val(st, x.Len), x.Len.Type())
		cp := e.toInt64(e.val(st, x.Cap), x.Cap.Type())
		n, ok := 0, false
		if cp.IsConst() {
			n, ok = int(cp.Int()), true
		} else {
			n, ok = e.upperBound(cp)
		}
		if !ok {
			e.unsupported("make with unbounded symbolic capacity")
		}
		if n < 0 || n > 1<<20 {
			e.unsupported(fmt.Sprintf("make with capacity %d", n))
		}
		e.panicIf(st, e.S.Or(e.S.SLt(ln, e.c64(0)), e.S.SLt(cp, ln)), "makeslice: len out of range")
		et := x.Type().Underlying().(*types.Slice).Elem()
		z := e.Zero(et)
		a := &ArrayV{E: make([]Value, n)}
		for i := range a.E {
			a.E[i] = z
		}
		id := e.newObj(st.heap, a)
		return &SliceV{Base: e.ptrTo(id), Off: e.c64(0), Len: ln, Cap: cp}
	case *ssa.MakeMap:
		id := e.newObj(st.heap, &MapC{})
		return &MapV{Ref: e.ptrTo(id)}
	case *ssa.Slice:
		return e.sliceOp(st, x)
	case *ssa.TypeAssert:
		return e.typeAssert(st, x)
	case *ssa.Range:
		return e.rangeStart(st, x)
	case *ssa.Next:
		return e.rangeNext(st, x)
	}
	e.unsupported(fmt.Sprintf("instruction %T", in))
	return nil
}

func (e *Engine) boundsCheck(st *St, i, n *T, msg string) {
	bad := e.S.Or(e.S.SLt(i, e.c64(0)), e.S.SLe(n, i))
	e.panicIf(st, bad, msg)
}

func (e *Engine) binop(st *St, op token.Token, a, b Value, ta, tb types.Type) Value {
	switch x := a.(type) {
	case *T:
		y, ok := b.(*T)
		if !ok {
			e.unsupported("binop scalar with non-scalar")
		}
		if x.W == 0 { // bool
			switch op {
			case token.EQL:
				return e.S.Eq(x, y)
			case token.NEQ:
				return e.S.Not(e.S.Eq(x, y))
			case token.AND, token.LAND:
				return e.S.And(x, y)
			case token.OR, token.LOR:
				return e.S.Or(x, y)
			}
			e.unsupported("bool binop " + op.String())
		}
		_, signed, _ := intInfo(ta)
		switch op {
		case token.ADD:
			return e.S.Add(x, y)
		case token.SUB:
			return e.S.Sub(x, y)
		case token.MUL:
			return e.S.Bin(term.OMul, x, y)
		case token.QUO, token.REM:
			e.panicIf(st, e.S.Eq(y, e.S.Const(0, y.W)), "integer divide by zero")
			var o term.Op
			switch {
			case op == token.QUO && signed:
				o = term.OSDiv
			case op == token.QUO:
				o = term.OUDiv
			case signed:
				o = term.OSRem
			default:
				o = term.OURem
			}
			return e.S.Bin(o, x, y)
		case token.AND:
			return e.S.Bin(term.OBvAnd, x, y)
		case token.OR:
			return e.S.Bin(term.OBvOr, x, y)
		case token.XOR:
			return e.S.Bin(term.OBvXor, x, y)
		case token.AND_NOT:
			return e.S.Bin(term.OBvAnd, x, e.S.BvNot(y))
		case token.SHL, token.SHR:
			_, ysigned, _ := intInfo(tb)
			if ysigned {
				e.panicIf(st, e.S.SLt(y, e.S.Const(0, y.W)), "negative shift amount")
			}
			var o term.Op
			switch {
			case op == token.SHL:
				o = term.OShl
			case signed:
				o = term.OAShr
			default:
				o = term.OLShr
			}
			if y.W <= x.W {
				return e.S.Bin(o, x, e.S.ZExt(y, x.W))
			}
			big := e.S.ULe(e.S.Const(uint64(x.W), y.W), y)
			sat := e.S.Bin(o, x, e.S.Const(uint64(x.W), x.W)) // shift by >= width
			return e.S.Ite(big, sat, e.S.Bin(o, x, e.S.Extract(y, x.W-1, 0)))
		case token.EQL:
			return e.S.Eq(x, y)
		case token.NEQ:
			return e.S.Not(e.S.Eq(x, y))
		case token.LSS:
			if signed {
				return e.S.SLt(x, y)
			}
			return e.S.ULt(x, y)
		case token.LEQ:
			if signed {
				return e.S.SLe(x, y)
			}
			return e.S.ULe(x, y)
		case token.GTR:
			if signed {
				return e.S.SLt(y, x)
			}
			return e.S.ULt(y, x)
		case token.GEQ:
			if signed {
				return e.S.SLe(y, x)
			}
			return e.S.ULe(y, x)
		}
		e.unsupported("int binop " + op.String())
	case *SliceV:
		y, ok := b.(*SliceV)
		if ok && x.IsStr && y.IsStr {
			switch op {
			case token.EQL:
				return e.stringEq(x, y)
			case token.NEQ:
				return e.S.Not(e.stringEq(x, y))
			case token.ADD:
				return e.concat(st, x, y)
			case token.LSS, token.LEQ, token.GTR, token.GEQ:
				return e.stringCmp(st, op, x, y)
			}
		}
	case *OpaqueV:
		switch op {
		case token.EQL, token.NEQ, token.LSS, token.LEQ, token.GTR, token.GEQ:
			e.unsupported("comparison of uninterpreted values (" + x.What + ")")
		}
		return x
	}
	switch op {
	case token.EQL, token.NEQ:
		q := e.valueEq(a, b)
		if q == nil {
			e.unsupported(fmt.Sprintf("comparison of %T and %T", a, b))
		}
		if op == token.NEQ {
			return e.S.Not(q)
		}
		return q
	}
	e.unsupported(fmt.Sprintf("binop %s on %T", op, a))
	return nil
}

func (e *Engine) stringCmp(st *St, op token.Token, x, y *SliceV) *T {
	// lexicographic less-than, built from the back
	n := e.maxLen(st, x)
	if m := e.maxLen(st, y); m > n {
		n = m
	}
	// lt(i): x[i:] < y[i:]
	lt := e.S.False // beyond both: equal -> not less
	eq := e.S.True
	for i := n; i >= 0; i-- {
		ci := e.c64(int64(i))
		xend := e.S.SLe(x.Len, ci)
		yend := e.S.SLe(y.Len, ci)
		if i == n {
			lt = e.S.And(xend, e.S.Not(yend))
			eq = e.S.And(xend, yend)
			continue
		}
		bx, by := e.byteAt(st, x, ci), e.byteAt(st, y, ci)
		both := e.S.And(e.S.Not(xend), e.S.Not(yend))
		nlt := e.S.Or(e.S.And(xend, e.S.Not(yend)), e.S.And(both, e.S.Or(e.S.ULt(bx, by), e.S.And(e.S.Eq(bx, by), lt))))
		neq := e.S.Or(e.S.And(xend, yend), e.S.AndN(both, e.S.Eq(bx, by), eq))
		lt, eq = nlt, neq
	}
	switch op {
	case token.LSS:
		return lt
	case token.LEQ:
		return e.S.Or(lt, eq)
	case token.GTR:
		return e.S.Not(e.S.Or(lt, eq))
	default:
		return e.S.Not(lt)
	}
}

func (e *Engine) concat(st *St, x, y *SliceV) *SliceV {
	if xs, ok := e.ConstStringOf(st, x); ok {
		if ys, ok := e.ConstStringOf(st, y); ok {
			return e.constString(xs + ys)
		}
	}
	nx, ny := e.maxLen(st, x), e.maxLen(st, y)
	cells := make([]Value, nx+ny)
	for k := range cells {
		ck := e.c64(int64(k))
		// cell k = k < len(x) ? x[k] : y[k-len(x)]
		var v *T = e.S.Const(0, 8)
		if ny > 0 {
			v = e.byteAtClamped(st, y, e.S.Sub(ck, x.Len), ny)
		}
		if k < nx {
			v = e.S.Ite(e.S.SLt(ck, x.Len), e.byteAt(st, x, ck), v)
		}
		cells[k] = v
	}
	id := e.newBytes(st, cells)
	return &SliceV{Base: e.ptrTo(id), Off: e.c64(0), Len: e.S.Add(x.Len, y.Len), IsStr: true}
}

// byteAtClamped reads s[i] for a possibly out-of-range symbolic i (result arbitrary then).
func (e *Engine) byteAtClamped(st *St, s *SliceV, i *T, n int) *T {
	var r *T = e.S.Const(0, 8)
	for k := n - 1; k >= 0; k-- {
		ck := e.c64(int64(k))
		c := e.S.Eq(i, ck)
		if c.IsFalse() {
			continue
		}
		r = e.S.Ite(c, e.byteAt(st, s, ck), r)
	}
	return r
}

func (e *Engine) convert(st *St, v Value, from, to types.Type) Value {
	fw, fsigned, fint := intInfo(from)
	tw, _, tint := intInfo(to)
	_ = fw
	switch {
	case fint && tint:
		return e.S.Resize(v.(*T), tw, fsigned)
	case isStringType(to) && fint:
		return e.runeToString(st, e.S.Resize(v.(*T), 32, fsigned))
	case isStringType(to) && isStringType(from):
		return v
	}
	if isStringType(to) {
		if sl, ok := from.Underlying().(*types.Slice); ok {
			if w, _, _ := intInfo(sl.Elem()); w == 8 {
				return e.copyBytes(st, v.(*SliceV), true)
			}
			if w, _, _ := intInfo(sl.Elem()); w == 32 {
				return e.runesToString(st, v.(*SliceV))
			}
		}
	}
	if isStringType(from) {
		if sl, ok := to.Underlying().(*types.Slice); ok {
			if w, _, _ := intInfo(sl.Elem()); w == 8 {
				return e.copyBytes(st, v.(*SliceV), false)
			}
			if w, _, _ := intInfo(sl.Elem()); w == 32 {
				return e.stringToRunes(st, v.(*SliceV))
			}
		}
	}
	if _, ok := v.(*OpaqueV); ok {
		if tint {
			e.unsupported("conversion from float to int")
		}
		return v
	}
	if fint {
		if b, ok := to.Underlying().(*types.Basic); ok && b.Info()&types.IsFloat != 0 {
			return &OpaqueV{What: "float"}
		}
	}
	if _, ok := to.Underlying().(*types.Pointer); ok {
		if _, ok := from.Underlying().(*types.Pointer); ok {
			return v
		}
	}
	if _, ok := to.Underlying().(*types.Slice); ok {
		if _, ok := from.Underlying().(*types.Slice); ok {
			return v
		}
	}
	e.unsupported(fmt.Sprintf("conversion %s -> %s", from, to))
	return nil
}

// runeToString implements string(r) (UTF-8 encoding, invalid -> U+FFFD).
func (e *Engine) runeToString(st *St, r *T) *SliceV {
	S := e.S
	c := func(v int64) *T { return S.ConstInt(v, 32) }
	invalid := S.OrN(S.SLt(r, c(0)), S.SLt(c(0x10FFFF), r), S.And(S.SLe(c(0xD800), r), S.SLe(r, c(0xDFFF))))
	r = S.Ite(invalid, c(0xFFFD), r)
	b := func(x *T) *T { return S.Extract(x, 7, 0) }
	sh := func(x *T, n int64) *T { return S.Bin(term.OLShr, x, c(n)) }
	and := func(x *T, m int64) *T { return S.Bin(term.OBvAnd, x, c(m)) }
	or := func(x *T, m int64) *T { return S.Bin(term.OBvOr, x, c(m)) }
	is1 := S.SLt(r, c(0x80))
	is2 := S.SLt(r, c(0x800))
	is3 := S.SLt(r, c(0x10000))
	b0 := S.Ite(is1, b(r), S.Ite(is2, b(or(sh(r, 6), 0xC0)), S.Ite(is3, b(or(sh(r, 12), 0xE0)), b(or(sh(r, 18), 0xF0)))))
	b1 := S.Ite(is2, b(or(and(r, 0x3F), 0x80)), S.Ite(is3, b(or(and(sh(r, 6), 0x3F), 0x80)), b(or(and(sh(r, 12), 0x3F), 0x80))))
	b2 := S.Ite(is3, b(or(and(r, 0x3F), 0x80)), b(or(and(sh(r, 6), 0x3F), 0x80)))
	b3 := b(or(and(r, 0x3F), 0x80))
	ln := S.Ite(is1, e.c64(1), S.Ite(is2, e.c64(2), S.Ite(is3, e.c64(3), e.c64(4))))
	if ln.IsConst() {
		cells := []Value{b0, b1, b2, b3}[:ln.Int()]
		buf := make([]byte, len(cells))
		allc := true
		for i, cv := range cells {
			t := cv.(*T)
			if !t.IsConst() {
				allc = false
				break
			}
			buf[i] = byte(t.Val)
		}
		if allc {
			return e.constString(string(buf))
		}
	}
	id := e.newBytes(st, []Value{b0, b1, b2, b3})
	return &SliceV{Base: e.ptrTo(id), Off: e.c64(0), Len: ln, IsStr: true}
}

func (e *Engine) runesToString(st *St, s *SliceV) *SliceV {
	n := e.maxLen(st, s)
	out := e.emptyString()
	for i := 0; i < n; i++ {
		ci := e.c64(int64(i))
		in := e.S.SLt(ci, s.Len)
		if in.IsFalse() {
			break
		}
		r := e.Load(st, e.elemPtr(s, ci), "rune").(*T)
		piece := e.runeToString(st, r)
		cat := e.concat(st, out, piece)
		out = e.Merge(in, cat, out).(*SliceV)
	}
	return out
}

func (e *Engine) sliceOp(st *St, x *ssa.Slice) Value {
	v := e.val(st, x.X)
	get := func(sv ssa.Value, def *T) *T {
		if sv == nil {
			return def
		}
		return e.toInt64(e.val(st, sv), sv.Type())
	}
	zero := e.c64(0)
	switch s := v.(type) {
	case *SliceV:
		if s.IsStr {
			lo := get(x.Low, zero)
			hi := get(x.High, s.Len)
			bad := e.S.OrN(e.S.SLt(lo, zero), e.S.SLt(hi, lo), e.S.SLt(s.Len, hi))
			e.panicIf(st, bad, "slice bounds out of range")
			return &SliceV{Base: s.Base, Off: e.S.Add(s.Off, lo), Len: e.S.Sub(hi, lo), IsStr: true}
		}
		lo := get(x.Low, zero)
		hi := get(x.High, s.Len)
		mx := get(x.Max, s.Cap)
		bad := e.S.OrN(e.S.SLt(lo, zero), e.S.SLt(hi, lo), e.S.SLt(mx, hi), e.S.SLt(s.Cap, mx))
		e.panicIf(st, bad, "slice bounds out of range")
		return &SliceV{Base: s.Base, Off: e.S.Add(s.Off, lo), Len: e.S.Sub(hi, lo), Cap: e.S.Sub(mx, lo)}
	case *PtrV:
		n := x.X.Type().Underlying().(*types.Pointer).Elem().Underlying().(*types.Array).Len()
		e.panicIf(st, e.ptrIsNil(s), "nil pointer dereference (slice of array)")
		lo := get(x.Low, zero)
		hi := get(x.High, e.c64(n))
		mx := get(x.Max, e.c64(n))
		bad := e.S.OrN(e.S.SLt(lo, zero), e.S.SLt(hi, lo), e.S.SLt(mx, hi), e.S.SLt(e.c64(n), mx))
		e.panicIf(st, bad, "slice bounds out of range")
		return &SliceV{Base: s, Off: lo, Len: e.S.Sub(hi, lo), Cap: e.S.Sub(mx, lo)}
	}
	e.unsupported("slice of " + x.X.Type().String())
	return nil
}

func (e *Engine) typeAssert(st *St, x *ssa.TypeAssert) Value {
	iv := e.val(st, x.X).(*IfaceV)
	S := e.S
	if it, ok := x.AssertedType.Underlying().(*types.Interface); ok {
		okc := S.False
		var alts []IfaceAlt
		for _, a := range iv.Alts {
			if a.T != nil && types.Implements(a.T, it) {
				okc = S.Or(okc, a.G)
				alts = append(alts, a)
			}
		}
		if !x.CommaOk {
			e.panicIf(st, S.Not(okc), "interface conversion failed: "+x.AssertedType.String())
			if len(alts) == 0 {
				return &IfaceV{Alts: []IfaceAlt{{G: S.True}}}
			}
			return &IfaceV{Alts: alts}
		}
		alts = append(alts, IfaceAlt{G: S.Not(okc)})
		return &TupleV{V: []Value{&IfaceV{Alts: alts}, okc}}
	}
	okc := S.False
	var val Value
	for _, a := range iv.Alts {
		if a.T != nil && types.Identical(a.T, x.AssertedType) {
			okc = S.Or(okc, a.G)
			val = a.V
		}
	}
	if val == nil {
		val = e.Zero(x.AssertedType)
	}
	if x.CommaOk {
		return &TupleV{V: []Value{val, okc}}
	}
	e.panicIf(st, S.Not(okc), "interface conversion: not "+x.AssertedType.String())
	return val
}

// stringToRunes implements []rune(s) by decoding with the real utf8.DecodeRuneInString.
func (e *Engine) stringToRunes(st *St, s *SliceV) *SliceV {
	S := e.S
	n := e.maxLen(st, s)
	dec := e.findFunc("unicode/utf8", "DecodeRuneInString")
	if dec == nil {
		e.unsupported("[]rune(string) needs unicode/utf8 in the program")
	}
	cells := make([]Value, n)
	for i := range cells {
		cells[i] = S.Const(0, 32)
	}
	pos, count := e.c64(0), e.c64(0)
	for k := 0; k < n; k++ {
		valid := S.SLt(pos, s.Len)
		if valid.IsFalse() {
			break
		}
		sub := &SliceV{Base: s.Base, Off: S.Add(s.Off, pos), Len: S.Ite(valid, S.Sub(s.Len, pos), e.c64(0)), IsStr: true}
		res := e.CallFunc(st, dec, []Value{sub}, nil)
		r, size := res[0].(*T), res[1].(*T)
		cells[k] = S.Ite(valid, r, S.Const(0, 32))
		pos = S.Ite(valid, S.Add(pos, size), pos)
		count = S.Ite(valid, S.Add(count, e.c64(1)), count)
	}
	id := e.newObj(st.heap, &ArrayV{E: cells})
	return &SliceV{Base: e.ptrTo(id), Off: e.c64(0), Len: count, Cap: count}
}

// permObj: per-path mode of the "one permuted map range" device (0 off, 1 armed, 2 used).
const permObj ObjID = -3

func (e *Engine) permMode(st *St) int {
	if v, ok := st.heap.lookup(permObj); ok {
		if t, ok := v.(*T); ok && t.IsConst() {
			return int(t.Val)
		}
	}
	return 0
}

// mapOrders lists the visiting orders tried for a map of n entries besides the natural one:
// every order for n <= 4; for larger maps the reversal, the two rotations by one and the swaps
// of the first two and of the last two entries.
func mapOrders(n int) [][]int {
	id := make([]int, n)
	for i := range id {
		id[i] = i
	}
	var out [][]int
	if n <= 4 {
		var gen func(cur []int, used []bool)
		gen = func(cur []int, used []bool) {
			if len(cur) == n {
				same := true
				for i, x := range cur {
					if x != i {
						same = false
					}
				}
				if !same {
					out = append(out, append([]int{}, cur...))
				}
				return
			}
			for i := 0; i < n; i++ {
				if !used[i] {
					used[i] = true
					gen(append(cur, i), used)
					used[i] = false
				}
			}
		}
		gen(nil, make([]bool, n))
		return out
	}
	rev := make([]int, n)
	rotl := make([]int, n)
	rotr := make([]int, n)
	for i := 0; i < n; i++ {
		rev[i] = n - 1 - i
		rotl[i] = (i + 1) % n
		rotr[i] = (i + n - 1) % n
	}
	sw0 := append([]int{}, id...)
	sw0[0], sw0[1] = 1, 0
	sw1 := append([]int{}, id...)
	sw1[n-1], sw1[n-2] = n-2, n-1
	return [][]int{rev, rotl, rotr, sw0, sw1}
}
