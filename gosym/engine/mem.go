package engine

import (
	"fmt"
)

// Heap: shared immutable base (objects created by package initialisers) + a persistent chain of
// per-state overlays. Forking a state freezes its heap and gives both sides an empty child, so
// a fork costs O(1) and a merge only looks at objects written since the common ancestor.
type Heap struct {
	over   map[ObjID]Value
	parent *Heap
	depth  int
	frozen bool
}

func newHeap() *Heap { return &Heap{over: map[ObjID]Value{}} }

func (h *Heap) lookup(id ObjID) (Value, bool) {
	for x := h; x != nil; x = x.parent {
		if v, ok := x.over[id]; ok {
			return v, true
		}
	}
	return nil, false
}

func (h *Heap) set(id ObjID, v Value) {
	if h.frozen {
		panic("engine: write to a frozen heap")
	}
	h.over[id] = v
}

// all returns every entry visible in h (youngest wins).
func (h *Heap) all() map[ObjID]Value {
	out := map[ObjID]Value{}
	var chain []*Heap
	for x := h; x != nil; x = x.parent {
		chain = append(chain, x)
	}
	for i := len(chain) - 1; i >= 0; i-- {
		for k, v := range chain[i].over {
			out[k] = v
		}
	}
	return out
}

// child freezes h and returns a fresh overlay on top of it.
func (h *Heap) child() *Heap {
	h.frozen = true
	if h.depth >= 32 {
		return &Heap{over: h.all()}
	}
	return &Heap{over: map[ObjID]Value{}, parent: h, depth: h.depth + 1}
}

func (e *Engine) heapGet(h *Heap, id ObjID) Value {
	if v, ok := h.lookup(id); ok {
		return v
	}
	if v, ok := e.base[id]; ok {
		return v
	}
	panic(fmt.Sprintf("engine: object %d not in heap", id))
}

func (e *Engine) newObj(h *Heap, content Value) ObjID {
	e.nextObj++
	id := e.nextObj
	h.set(id, content)
	return id
}

// mergeHeaps returns ite(g, a, b) object-wise; only objects written since the common ancestor of
// a and b are looked at.
func (e *Engine) mergeHeaps(g *T, a, b *Heap) *Heap {
	anc := map[*Heap]bool{}
	for x := a; x != nil; x = x.parent {
		anc[x] = true
	}
	var common *Heap
	for x := b; x != nil; x = x.parent {
		if anc[x] {
			common = x
			break
		}
	}
	keys := map[ObjID]bool{}
	for x := a; x != common; x = x.parent {
		for k := range x.over {
			keys[k] = true
		}
	}
	for x := b; x != common; x = x.parent {
		for k := range x.over {
			keys[k] = true
		}
	}
	out := &Heap{over: make(map[ObjID]Value, len(keys))}
	if common != nil {
		common.frozen = true
		out.parent, out.depth = common, common.depth+1
	}
	get := func(h *Heap, id ObjID) (Value, bool) {
		if v, ok := h.lookup(id); ok {
			return v, true
		}
		v, ok := e.base[id]
		return v, ok
	}
	for id := range keys {
		va, oka := get(a, id)
		vb, okb := get(b, id)
		switch {
		case oka && okb:
			out.over[id] = e.Merge(g, va, vb)
		case oka:
			out.over[id] = va
		default:
			out.over[id] = vb
		}
	}
	if out.depth >= 32 {
		return &Heap{over: out.all()}
	}
	return out
}

// loadPath navigates content along path.
func (e *Engine) loadPath(content Value, path []PathElem) Value {
	if len(path) == 0 {
		return content
	}
	p := path[0]
	if p.Idx == nil {
		s, ok := content.(*StructV)
		if !ok {
			panic(fmt.Sprintf("engine: field path into %T", content))
		}
		return e.loadPath(s.F[p.Field], path[1:])
	}
	a, ok := content.(*ArrayV)
	if !ok {
		panic(fmt.Sprintf("engine: index path into %T", content))
	}
	if p.Idx.IsConst() {
		i := p.Idx.Int()
		if i < 0 || i >= int64(len(a.E)) {
			// out of the container: bounds were checked against len/cap by the caller, so this
			// location is unreachable; return a zero-ish value of the right shape
			if len(a.E) == 0 {
				return nil
			}
			return e.loadPath(a.E[0], path[1:])
		}
		return e.loadPath(a.E[i], path[1:])
	}
	var res Value
	first := true
	for k := len(a.E) - 1; k >= 0; k-- {
		c := e.S.Eq(p.Idx, e.S.ConstInt(int64(k), p.Idx.W))
		if c.IsFalse() {
			continue
		}
		v := e.loadPath(a.E[k], path[1:])
		if first {
			res = v
			first = false
			continue
		}
		res = e.Merge(c, v, res)
	}
	if first {
		if len(a.E) == 0 {
			return nil
		}
		return e.loadPath(a.E[0], path[1:])
	}
	return res
}

// storePath returns content with v stored at path when cond holds.
func (e *Engine) storePath(content Value, path []PathElem, v Value, cond *T) Value {
	if cond.IsFalse() {
		return content
	}
	if len(path) == 0 {
		return e.Merge(cond, v, content)
	}
	p := path[0]
	if p.Idx == nil {
		s := content.(*StructV)
		nf := e.storePath(s.F[p.Field], path[1:], v, cond)
		if nf == s.F[p.Field] {
			return s
		}
		out := &StructV{F: make([]Value, len(s.F))}
		copy(out.F, s.F)
		out.F[p.Field] = nf
		return out
	}
	a := content.(*ArrayV)
	out := &ArrayV{E: make([]Value, len(a.E))}
	copy(out.E, a.E)
	if p.Idx.IsConst() {
		i := p.Idx.Int()
		if i < 0 || i >= int64(len(a.E)) {
			return a
		}
		out.E[i] = e.storePath(a.E[i], path[1:], v, cond)
		return out
	}
	for k := range a.E {
		c := e.S.And(cond, e.S.Eq(p.Idx, e.S.ConstInt(int64(k), p.Idx.W)))
		if c.IsFalse() {
			continue
		}
		out.E[k] = e.storePath(a.E[k], path[1:], v, c)
	}
	return out
}

// Load reads through a pointer; nil alternatives become panic records.
func (e *Engine) Load(st *St, p *PtrV, what string) Value {
	return e.LoadIf(st, p, e.S.True, what)
}

// LoadIf is Load for an access that only happens when cond holds (element reads guarded by a
// length test inside append/copy/string comparison): a nil alternative is a panic only then.
func (e *Engine) LoadIf(st *St, p *PtrV, cond *T, what string) Value {
	var res Value
	first := true
	for i := len(p.Alts) - 1; i >= 0; i-- {
		a := p.Alts[i]
		if a.Obj == 0 {
			e.panicIf(st, e.S.And(a.G, cond), "nil pointer dereference ("+what+")")
			continue
		}
		if e.S.And(st.pc, a.G).IsFalse() {
			continue
		}
		v := e.loadPath(e.heapGet(st.heap, a.Obj), a.Path)
		if first {
			res = v
			first = false
			continue
		}
		res = e.Merge(a.G, v, res)
	}
	return res
}

// Store writes through a pointer.
func (e *Engine) Store(st *St, p *PtrV, v Value, what string) {
	for _, a := range p.Alts {
		if a.Obj == 0 {
			e.panicIf(st, a.G, "nil pointer dereference ("+what+")")
			continue
		}
		if e.S.And(st.pc, a.G).IsFalse() {
			continue
		}
		e.noteWrite(st, a.Obj, a.G)
		old := e.heapGet(st.heap, a.Obj)
		st.heap.set(a.Obj, e.storePath(old, a.Path, v, a.G))
	}
}

// extend returns p with one more path element on every alternative.
func (e *Engine) extend(p *PtrV, pe PathElem) *PtrV {
	out := &PtrV{Alts: make([]PtrAlt, len(p.Alts))}
	for i, a := range p.Alts {
		out.Alts[i] = a
		if a.Obj != 0 {
			np := make([]PathElem, len(a.Path)+1)
			copy(np, a.Path)
			np[len(a.Path)] = pe
			out.Alts[i].Path = np
		}
	}
	return out
}

// elemPtr: pointer to element i (relative to slice offset) of a slice.
func (e *Engine) elemPtr(s *SliceV, i *T) *PtrV {
	return e.extend(s.Base, PathElem{Idx: e.S.Add(s.Off, i)})
}

// ---- strings ---------------------------------------------------------------

func (e *Engine) constString(s string) *SliceV {
	if v, ok := e.strTab[s]; ok {
		return v
	}
	if len(s) == 0 {
		v := e.emptyString()
		e.strTab[s] = v
		return v
	}
	a := &ArrayV{E: make([]Value, len(s))}
	for i := 0; i < len(s); i++ {
		a.E[i] = e.S.Const(uint64(s[i]), 8)
	}
	e.nextObj++
	id := e.nextObj
	e.base[id] = a
	v := &SliceV{Base: e.ptrTo(id), Off: e.c64(0), Len: e.c64(int64(len(s))), IsStr: true}
	e.strTab[s] = v
	e.strOf[id] = s
	return v
}

// ConstStringOf returns the Go string if v is a fully concrete string.
func (e *Engine) ConstStringOf(st *St, v *SliceV) (string, bool) {
	if !v.Len.IsConst() || !v.Off.IsConst() {
		return "", false
	}
	n := v.Len.Int()
	if n == 0 {
		return "", true
	}
	if len(v.Base.Alts) != 1 || v.Base.Alts[0].Obj == 0 {
		return "", false
	}
	buf := make([]byte, n)
	for i := int64(0); i < n; i++ {
		b, ok := e.loadPath(e.heapGet(st.heap, v.Base.Alts[0].Obj), append(append([]PathElem{}, v.Base.Alts[0].Path...), PathElem{Idx: e.c64(v.Off.Int() + i)})).(*T)
		if !ok || !b.IsConst() {
			return "", false
		}
		buf[i] = byte(b.Val)
	}
	return string(buf), true
}

// maxLen returns a concrete upper bound for the length of a slice/string.
func (e *Engine) maxLen(st *St, s *SliceV) int {
	if s.Len.IsConst() {
		return int(s.Len.Int())
	}
	if ub, ok := e.upperBound(s.Len); ok {
		return ub
	}
	m := 0
	for _, a := range s.Base.Alts {
		if a.Obj == 0 {
			continue
		}
		c := e.loadPath(e.heapGet(st.heap, a.Obj), a.Path)
		if arr, ok := c.(*ArrayV); ok && len(arr.E) > m {
			m = len(arr.E)
		}
	}
	return m
}

// upperBound: max over the leaves of a constant-leaf ite tree (signed).
func (e *Engine) upperBound(t *T) (int, bool) {
	if !t.ConstLeaves() {
		return 0, false
	}
	m := int64(-1 << 62)
	for _, v := range t.LeafVals() {
		x := e.S.Const(v, t.W).Int()
		if x > m {
			m = x
		}
	}
	return int(m), true
}

// byteAt: s[i] for strings and byte slices, without bounds check.
func (e *Engine) byteAt(st *St, s *SliceV, i *T) *T {
	v := e.LoadIf(st, e.elemPtr(s, i), e.S.SLt(i, s.Len), "byte index")
	if v == nil {
		return e.S.Const(0, 8)
	}
	return v.(*T)
}

func (e *Engine) stringEq(x, y *SliceV) *T {
	st := e.cur
	r := e.S.Eq(x.Len, y.Len)
	if r.IsFalse() {
		return r
	}
	n := e.maxLen(st, x)
	if m := e.maxLen(st, y); m < n {
		n = m
	}
	for i := 0; i < n; i++ {
		ci := e.c64(int64(i))
		in := e.S.SLt(ci, x.Len)
		if in.IsFalse() {
			break
		}
		bx, by := e.byteAt(st, x, ci), e.byteAt(st, y, ci)
		r = e.S.And(r, e.S.Or(e.S.Not(in), e.S.Eq(bx, by)))
		if r.IsFalse() {
			return r
		}
	}
	return r
}

// newBytes allocates a byte container with the given cells.
func (e *Engine) newBytes(st *St, cells []Value) ObjID {
	return e.newObj(st.heap, &ArrayV{E: cells})
}

// copyBytes materialises s (string or []byte) into a fresh container of maxLen cells.
func (e *Engine) copyBytes(st *St, s *SliceV, asStr bool) *SliceV {
	n := e.maxLen(st, s)
	if n == 0 {
		if asStr {
			return e.emptyString()
		}
		id := e.newBytes(st, nil)
		return &SliceV{Base: e.ptrTo(id), Off: e.c64(0), Len: e.c64(0), Cap: e.c64(0)}
	}
	if asStr {
		if cs, ok := e.ConstStringOf(st, s); ok {
			return e.constString(cs)
		}
	}
	cells := make([]Value, n)
	for i := 0; i < n; i++ {
		cells[i] = e.byteAt(st, s, e.c64(int64(i)))
	}
	id := e.newBytes(st, cells)
	out := &SliceV{Base: e.ptrTo(id), Off: e.c64(0), Len: s.Len, IsStr: asStr}
	if !asStr {
		out.Cap = s.Len
	}
	return out
}
