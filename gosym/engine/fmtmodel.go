package engine

import (
	"fmt"
	"go/types"

	"golang.org/x/tools/go/ssa"
)

// Opt-in (Config.ConcreteFmt) model of fmt.Sprintf/Fprintf/Sprint and strings.Builder: the real
// text is computed whenever the format string and every operand are concrete (integers, bools,
// strings, byte slices, and values with a String/Error method, which is executed by the
// engine). The lexer item-set construction keys its items by such text. Anything else falls
// back to the opaque stubs.

// fmtStringer stands for a value with a String/Error method: like fmt, the method is run (by
// the engine) only for the verbs that are valid for strings.
type fmtStringer struct {
	call func() (string, bool)
	fail *bool
	n    int64
	i    bool
}

func (f fmtStringer) Format(st fmt.State, verb rune) {
	switch verb {
	case 'd', 'c', 'U', 'o', 'b':
		if f.i {
			fmt.Fprintf(st, "%"+string(verb), f.n)
			return
		}
	case 'v', 's', 'q', 'x', 'X':
		s, ok := f.call()
		if !ok {
			*f.fail = true
			return
		}
		if verb == 'v' {
			verb = 's'
		}
		fmt.Fprintf(st, "%"+string(verb), s)
		return
	}
	*f.fail = true
}

var concreteFmtIntrinsics map[string]func(e *Engine, st *St, args []Value, fn *ssa.Function) (Value, bool)

func (e *Engine) goValue(st *St, t types.Type, v Value) (interface{}, bool) {
	if t == nil {
		return nil, true
	}
	// String()/Error() methods first (as fmt does for %s and %v)
	for _, m := range []string{"String", "Error"} {
		ms := e.Prog.MethodSets.MethodSet(t)
		sel := ms.Lookup(nil, m)
		if sel == nil {
			for i := 0; i < ms.Len(); i++ {
				if ms.At(i).Obj().Name() == m {
					sel = ms.At(i)
				}
			}
		}
		if sel == nil {
			continue
		}
		sig, ok := sel.Type().(*types.Signature)
		if !ok || sig.Params().Len() != 0 || sig.Results().Len() != 1 || !isStringType(sig.Results().At(0).Type()) {
			continue
		}
		if p, isPtr := v.(*PtrV); isPtr && e.ptrIsNil(p).IsTrue() {
			return "<nil>", true
		}
		fn := e.Prog.MethodValue(sel)
		if fn == nil {
			return nil, false
		}
		out := fmtStringer{fail: &e.fmtFail}
		out.call = func() (string, bool) {
			r, ok := e.callStatic(st, fn, []Value{v}, nil, nil).(*SliceV)
			if !ok {
				return "", false
			}
			return e.ConstStringOf(st, r)
		}
		if w, signed, isInt := intInfo(t); isInt {
			if c, isT := v.(*T); isT && c.IsConst() {
				out.i = true
				out.n = int64(c.Val)
				if signed {
					out.n = e.S.ConstInt(int64(c.Val), w).Int()
				}
			}
		}
		return out, true
	}
	switch x := v.(type) {
	case *T:
		if !x.IsConst() {
			return nil, false
		}
		if isBoolType(t) {
			return x.IsTrue(), true
		}
		w, signed, ok := intInfo(t)
		if !ok {
			return nil, false
		}
		if !signed {
			switch w {
			case 8:
				return uint8(x.Val), true
			case 16:
				return uint16(x.Val), true
			case 32:
				return uint32(x.Val), true
			}
			return uint64(x.Val), true
		}
		n := x.Int()
		switch w {
		case 8:
			return int8(n), true
		case 16:
			return int16(n), true
		case 32:
			return int32(n), true
		}
		if b, isB := t.Underlying().(*types.Basic); isB && b.Kind() == types.Int {
			return int(n), true
		}
		return n, true
	case *SliceV:
		if x.IsStr {
			s, ok := e.ConstStringOf(st, x)
			return s, ok
		}
		if sl, ok := t.Underlying().(*types.Slice); ok {
			if b, ok := sl.Elem().Underlying().(*types.Basic); ok && b.Kind() == types.Uint8 {
				s, ok := e.ConstStringOf(st, x)
				return []byte(s), ok
			}
		}
	}
	return nil, false
}

// fmtOperands turns the variadic []interface{} into Go values.
func (e *Engine) fmtOperands(st *St, v Value) ([]interface{}, bool) {
	sl, ok := v.(*SliceV)
	if !ok || !sl.Len.IsConst() {
		return nil, false
	}
	n := int(sl.Len.Int())
	out := make([]interface{}, n)
	for i := 0; i < n; i++ {
		iv, ok := e.Load(st, e.elemPtr(sl, e.c64(int64(i))), "fmt operand").(*IfaceV)
		if !ok || len(iv.Alts) != 1 {
			return nil, false
		}
		g, ok := e.goValue(st, iv.Alts[0].T, iv.Alts[0].V)
		if !ok {
			return nil, false
		}
		out[i] = g
	}
	return out, true
}

var byteType = types.Typ[types.Uint8]

// builderBuf returns a pointer to the buf field of a *strings.Builder.
func (e *Engine) builderBuf(b Value) (*PtrV, bool) {
	p, ok := b.(*PtrV)
	if !ok || len(p.Alts) != 1 || p.Alts[0].Obj == 0 {
		return nil, false
	}
	return e.extend(p, PathElem{Field: 1}), true
}

func (e *Engine) builderAppend(st *St, b Value, s *SliceV) bool {
	bp, ok := e.builderBuf(b)
	if !ok {
		return false
	}
	cur, ok := e.Load(st, bp, "strings.Builder.buf").(*SliceV)
	if !ok {
		return false
	}
	if cur.Cap == nil {
		cur = &SliceV{Base: cur.Base, Off: cur.Off, Len: cur.Len, Cap: cur.Len}
	}
	nv := e.appendOp(st, cur, s, byteType)
	e.Store(st, bp, nv, "strings.Builder.buf")
	return true
}

func isBuilderType(t types.Type) bool {
	p, ok := t.(*types.Pointer)
	if !ok {
		return false
	}
	n, ok := p.Elem().(*types.Named)
	return ok && n.Obj().Pkg() != nil && n.Obj().Pkg().Path() == "strings" && n.Obj().Name() == "Builder"
}

func init() {
	nilErr := func(e *Engine) Value { return &IfaceV{Alts: []IfaceAlt{{G: e.S.True}}} }
	sprint := func(kind string) func(e *Engine, st *St, args []Value, fn *ssa.Function) (Value, bool) {
		return func(e *Engine, st *St, args []Value, fn *ssa.Function) (Value, bool) {
			var text string
			e.fmtFail = false
			defer func() { e.fmtFail = false }()
			switch kind {
			case "f":
				f, ok := e.ConstStringOf(st, args[0].(*SliceV))
				if !ok {
					return nil, false
				}
				ops, ok := e.fmtOperands(st, args[1])
				if !ok {
					return nil, false
				}
				text = fmt.Sprintf(f, ops...)
			case "":
				ops, ok := e.fmtOperands(st, args[0])
				if !ok {
					return nil, false
				}
				text = fmt.Sprint(ops...)
			case "ln":
				ops, ok := e.fmtOperands(st, args[0])
				if !ok {
					return nil, false
				}
				text = fmt.Sprintln(ops...)
			}
			if e.fmtFail {
				return nil, false
			}
			return e.constString(text), true
		}
	}
	fprint := func(kind string) func(e *Engine, st *St, args []Value, fn *ssa.Function) (Value, bool) {
		return func(e *Engine, st *St, args []Value, fn *ssa.Function) (Value, bool) {
			w, ok := args[0].(*IfaceV)
			if !ok || len(w.Alts) != 1 || w.Alts[0].T == nil || !isBuilderType(w.Alts[0].T) {
				return nil, false
			}
			v, ok := sprint(kind)(e, st, args[1:], fn)
			if !ok {
				// the text is unknown: the builder's content becomes opaque text
				v = e.constString("<opaque:" + fn.Name() + ">")
			}
			s := v.(*SliceV)
			if !e.builderAppend(st, w.Alts[0].V, s) {
				return nil, false
			}
			return &TupleV{V: []Value{s.Len, nilErr(e)}}, true
		}
	}
	concreteFmtIntrinsics = map[string]func(e *Engine, st *St, args []Value, fn *ssa.Function) (Value, bool){
		"fmt.Sprintf":  sprint("f"),
		"fmt.Sprint":   sprint(""),
		"fmt.Sprintln": sprint("ln"),
		"fmt.Fprintf":  fprint("f"),
		"fmt.Fprint":   fprint(""),
		"fmt.Fprintln": fprint("ln"),
		"strconv.Itoa": func(e *Engine, st *St, args []Value, fn *ssa.Function) (Value, bool) {
			c, ok := args[0].(*T)
			if !ok || !c.IsConst() {
				return nil, false
			}
			return e.constString(fmt.Sprint(c.Int())), true
		},
		"(*strings.Builder).WriteString": func(e *Engine, st *St, args []Value, fn *ssa.Function) (Value, bool) {
			s := args[1].(*SliceV)
			if !e.builderAppend(st, args[0], s) {
				return nil, false
			}
			return &TupleV{V: []Value{s.Len, nilErr(e)}}, true
		},
		"(*strings.Builder).WriteByte": func(e *Engine, st *St, args []Value, fn *ssa.Function) (Value, bool) {
			id := e.newBytes(st, []Value{args[1]})
			s := &SliceV{Base: e.ptrTo(id), Off: e.c64(0), Len: e.c64(1), Cap: e.c64(1)}
			if !e.builderAppend(st, args[0], s) {
				return nil, false
			}
			return nilErr(e), true
		},
		"(*strings.Builder).WriteRune": func(e *Engine, st *St, args []Value, fn *ssa.Function) (Value, bool) {
			s := e.runeToString(st, args[1].(*T))
			if !e.builderAppend(st, args[0], s) {
				return nil, false
			}
			return &TupleV{V: []Value{s.Len, nilErr(e)}}, true
		},
		"(*strings.Builder).String": func(e *Engine, st *St, args []Value, fn *ssa.Function) (Value, bool) {
			bp, ok := e.builderBuf(args[0])
			if !ok {
				return nil, false
			}
			cur, ok := e.Load(st, bp, "strings.Builder.buf").(*SliceV)
			if !ok {
				return nil, false
			}
			return e.copyBytes(st, cur, true), true
		},
		"(*strings.Builder).Len": func(e *Engine, st *St, args []Value, fn *ssa.Function) (Value, bool) {
			bp, ok := e.builderBuf(args[0])
			if !ok {
				return nil, false
			}
			cur, ok := e.Load(st, bp, "strings.Builder.buf").(*SliceV)
			if !ok {
				return nil, false
			}
			return cur.Len, true
		},
		"strings.Join": func(e *Engine, st *St, args []Value, fn *ssa.Function) (Value, bool) {
			sl, ok := args[0].(*SliceV)
			if !ok || !sl.Len.IsConst() {
				return nil, false
			}
			sep, ok := e.ConstStringOf(st, args[1].(*SliceV))
			if !ok {
				return nil, false
			}
			out := ""
			for i := 0; i < int(sl.Len.Int()); i++ {
				el, ok := e.Load(st, e.elemPtr(sl, e.c64(int64(i))), "strings.Join operand").(*SliceV)
				if !ok {
					return nil, false
				}
				s, ok := e.ConstStringOf(st, el)
				if !ok {
					return nil, false
				}
				if i > 0 {
					out += sep
				}
				out += s
			}
			return e.constString(out), true
		},
	}
}
