package engine

import (
	"fmt"
	"go/token"
	"go/types"
	"os"
	"sort"
	"strings"

	"golang.org/x/tools/go/ssa"

	"verif/gosym/solver"
	"verif/gosym/term"
)

// St is one merged symbolic state of the frame being executed.
type St struct {
	pc   *T
	heap *Heap
	env  map[ssa.Value]Value
}

func (s *St) PC() *T { return s.pc }

func (s *St) fork() *St {
	parent := s.heap
	s.heap = parent.child()
	n := &St{pc: s.pc, heap: parent.child(), env: make(map[ssa.Value]Value, len(s.env)+8)}
	for k, v := range s.env {
		n.env[k] = v
	}
	return n
}

type Record struct {
	Cond  *T // satisfiable = the event can happen
	Msg   string
	Pos   string
	Stack string
	Kind  string
	Val   *T
}

type Config struct {
	LoopBound        int            // default unwinding bound
	LoopBounds       map[string]int // per function-name override ("pkg.Func" or "Func")
	RecBound         int
	MaxInstr         int64
	Session          *solver.Session
	InitPkgs         func(path string) bool // run this package's initialiser?
	PruneBranch      bool
	ForkPkgs         []string                  // fork mode for every function of these packages (in addition to ForkFuncs)
	ConcreteFmt      bool                      // fmt.Sprintf/Fprintf and strings.Builder compute real text where all operands are concrete (default: opaque stubs)
	SymbolicMapOrder bool                      // every range over a map visits its entries in an arbitrary (symbolic) order
	SkipInitFuncs    func(pkgPath string) bool // do not run the user init() functions of these packages
	ForkFuncs        map[string]bool           // functions executed path by path (no merging inside)
	Trace            bool
	// ExpectedPanic: message substrings that are not runtime errors of interest
	Intrinsics map[string]Intrinsic
}

type Intrinsic func(e *Engine, st *St, args []Value, call *ssa.CallCommon) (Value, bool)

type NondetInfo struct {
	Name   string
	W      int
	Signed bool
}

type ufCall struct {
	args []*T
	res  *T
}

type Engine struct {
	S       *term.Store
	Prog    *ssa.Program
	Cfg     Config
	base    map[ObjID]Value
	nextObj ObjID
	strTab  map[string]*SliceV
	strOf   map[ObjID]string
	globals map[*ssa.Global]ObjID
	inited  map[*ssa.Package]bool
	cur     *St
	infos   map[*ssa.Function]*fnInfo

	Panics  []Record
	Asserts []Record
	Covers  []Record
	Unwinds []Record
	Axioms  []*T // Ackermann constraints for uninterpreted functions
	Exits   []Record

	Nondets     []NondetInfo
	nondetCount map[string]int
	ufCalls     map[string][]ufCall

	// write tracking (C17): objects that existed before TrackFrom was set
	TrackWrites bool
	trackLimit  ObjID
	SharedWrite []Record

	Params      map[string]int
	Concrete    map[string]int64 // when non-nil every nondet is fixed to this value (default 0)
	trackExempt map[ObjID]bool
	files       map[string]*SliceV
	fmtFail     bool
	PermutedRanges int // executions of a map range that were run in another order (device of verifMapOrderOne)
	deferFrames int     // deferred calls registered and not yet run (over all live paths; paths that die without running theirs leave it too high, which only costs precision)
	splits      int     // number of times an execution state was split in two
	panicking   *unwind // set while deferred calls run because of a panic
	ndSeen      map[string]bool
	sharedObjs  map[ObjID]bool // package-level variables and everything package initialisers created
	MapOrder    func(n int) []int

	stack     []*ssa.Function
	posStack  []token.Pos
	Instrs    int64
	Merges    int64
	Blocks    int64
	FuncsSeen map[string]int
	Stubs     map[string]int
	booting   int
}

type unsupportedErr struct{ msg string }

func (e *Engine) unsupported(msg string) {
	panic(unsupportedErr{msg + " at " + e.where()})
}

func (e *Engine) where() string {
	var b strings.Builder
	for i := len(e.stack) - 1; i >= 0 && i >= len(e.stack)-e.whereDepth(); i-- {
		if b.Len() > 0 {
			b.WriteString(" <- ")
		}
		b.WriteString(e.stack[i].String())
		if i < len(e.posStack) && e.posStack[i].IsValid() {
			p := e.Prog.Fset.Position(e.posStack[i])
			fmt.Fprintf(&b, "@%s:%d", shortFile(p.Filename), p.Line)
		}
	}
	return b.String()
}

func shortFile(f string) string {
	if i := strings.LastIndex(f, "/"); i >= 0 {
		return f[i+1:]
	}
	return f
}

func New(prog *ssa.Program, cfg Config) *Engine {
	if cfg.LoopBound == 0 {
		cfg.LoopBound = 32
	}
	if cfg.RecBound == 0 {
		cfg.RecBound = 8
	}
	if cfg.MaxInstr == 0 {
		cfg.MaxInstr = 200_000_000
	}
	e := &Engine{
		S: term.NewStore(), Prog: prog, Cfg: cfg,
		base: map[ObjID]Value{}, strTab: map[string]*SliceV{}, strOf: map[ObjID]string{},
		globals: map[*ssa.Global]ObjID{}, inited: map[*ssa.Package]bool{},
		infos: map[*ssa.Function]*fnInfo{}, nondetCount: map[string]int{},
		ufCalls: map[string][]ufCall{}, sharedObjs: map[ObjID]bool{}, ndSeen: map[string]bool{}, FuncsSeen: map[string]int{}, Stubs: map[string]int{},
	}
	return e
}

// ---- CFG analysis ----------------------------------------------------------

type loop struct {
	header *ssa.BasicBlock
	body   map[*ssa.BasicBlock]bool
	parent *loop
	depth  int
}

type fnInfo struct {
	rpo    []*ssa.BasicBlock
	rpoIdx map[*ssa.BasicBlock]int
	loopOf map[*ssa.BasicBlock]*loop // innermost loop containing the block
	loops  []*loop
}

func (e *Engine) info(fn *ssa.Function) *fnInfo {
	if fi, ok := e.infos[fn]; ok {
		return fi
	}
	fi := &fnInfo{rpoIdx: map[*ssa.BasicBlock]int{}, loopOf: map[*ssa.BasicBlock]*loop{}}
	// reverse post-order
	seen := map[*ssa.BasicBlock]bool{}
	var post []*ssa.BasicBlock
	var dfs func(b *ssa.BasicBlock)
	dfs = func(b *ssa.BasicBlock) {
		seen[b] = true
		for _, s := range b.Succs {
			if !seen[s] {
				dfs(s)
			}
		}
		post = append(post, b)
	}
	dfs(fn.Blocks[0])
	for i := len(post) - 1; i >= 0; i-- {
		fi.rpoIdx[post[i]] = len(fi.rpo)
		fi.rpo = append(fi.rpo, post[i])
	}
	// natural loops
	byHeader := map[*ssa.BasicBlock]*loop{}
	for _, b := range fi.rpo {
		for _, s := range b.Succs {
			if s.Dominates(b) { // back edge b -> s
				l := byHeader[s]
				if l == nil {
					l = &loop{header: s, body: map[*ssa.BasicBlock]bool{s: true}}
					byHeader[s] = l
					fi.loops = append(fi.loops, l)
				}
				// collect body: nodes that reach b without passing through s
				work := []*ssa.BasicBlock{b}
				for len(work) > 0 {
					x := work[len(work)-1]
					work = work[:len(work)-1]
					if l.body[x] {
						continue
					}
					l.body[x] = true
					work = append(work, x.Preds...)
				}
			} else if fi.rpoIdx[s] <= fi.rpoIdx[b] && seen[s] {
				// retreating edge that is not a back edge: irreducible
				panic(unsupportedErr{"irreducible control flow in " + fn.String()})
			}
		}
	}
	// nesting: sort by body size ascending; parent = smallest strictly larger loop containing header
	sort.Slice(fi.loops, func(i, j int) bool { return len(fi.loops[i].body) < len(fi.loops[j].body) })
	for i, l := range fi.loops {
		for j := i + 1; j < len(fi.loops); j++ {
			if fi.loops[j] != l && fi.loops[j].body[l.header] {
				l.parent = fi.loops[j]
				break
			}
		}
	}
	for _, b := range fi.rpo {
		for _, l := range fi.loops { // ascending size: first hit is innermost
			if l.body[b] {
				fi.loopOf[b] = l
				break
			}
		}
	}
	e.infos[fn] = fi
	return fi
}

// ---- state merging -----------------------------------------------------------

// selector picks a (small) condition that is true exactly on a's side, given disjoint pcs.
func (e *Engine) selector(a, b *T) *T {
	if a.Op == term.OAnd && b.Op == term.OAnd {
		for i := 0; i < 2; i++ {
			for j := 0; j < 2; j++ {
				if a.Args[i] == b.Args[j] {
					p, q := a.Args[1-i], b.Args[1-j]
					if (p.Op == term.ONot && p.Args[0] == q) || (q.Op == term.ONot && q.Args[0] == p) {
						return p
					}
				}
			}
		}
	}
	return a
}

func (e *Engine) mergeSt(a, b *St) *St {
	if a == nil {
		return b
	}
	if b == nil {
		return a
	}
	if a.pc.IsFalse() {
		return b
	}
	if b.pc.IsFalse() {
		return a
	}
	e.Merges++
	g := e.selector(a.pc, b.pc)
	out := &St{pc: e.S.Or(a.pc, b.pc)}
	out.heap = e.mergeHeaps(g, a.heap, b.heap)
	out.env = make(map[ssa.Value]Value, len(a.env))
	for k, va := range a.env {
		if vb, ok := b.env[k]; ok {
			out.env[k] = e.Merge(g, va, vb)
		} else {
			out.env[k] = va
		}
	}
	for k, vb := range b.env {
		if _, ok := a.env[k]; !ok {
			out.env[k] = vb
		}
	}
	for k, v := range out.env {
		if _, isDL := v.(*deferList); isDL {
			if _, ina := a.env[k]; !ina {
				e.unsupported("merge of paths with different pending deferred calls")
			}
			if _, inb := b.env[k]; !inb {
				e.unsupported("merge of paths with different pending deferred calls")
			}
		}
	}
	return out
}

// ---- frames ---------------------------------------------------------------------

type retRec struct {
	st   *St
	vals []Value
}

type frame struct {
	fn       *ssa.Function
	fi       *fnInfo
	returns  []retRec
	forkMode bool // keep paths separate inside this function (merged again at return)
	hasDefer bool // the function contains defer statements
}

// deferList is the list of pending deferred calls of one frame along one path; it lives in the
// state's environment under the function as key, so that it forks with the path.
type deferList struct{ recs []deferRec }

func (fr *frame) defers(st *St) []deferRec {
	if dl, ok := st.env[fr.fn].(*deferList); ok {
		return dl.recs
	}
	return nil
}

func (e *Engine) isFork(fn *ssa.Function) bool {
	if e.Cfg.ForkFuncs[fn.Name()] {
		return true
	}
	if fn.Pkg != nil {
		for _, p := range e.Cfg.ForkPkgs {
			if fn.Pkg.Pkg.Path() == p {
				return true
			}
		}
	}
	return false
}

func fnHasDefer(fn *ssa.Function) bool {
	for _, b := range fn.Blocks {
		for _, in := range b.Instrs {
			if _, ok := in.(*ssa.Defer); ok {
				return true
			}
		}
	}
	return false
}

// deferRec: a deferred call with its operands evaluated at the defer statement.
type deferRec struct {
	fn   *ssa.Function // static callee, or nil
	fv   *FuncV        // closure / function value
	args []Value
	call *ssa.CallCommon
}

// unwind is raised (as a Go panic inside the engine) by a panic of the program under analysis
// while some frame below has deferred calls pending; it is caught at the call instruction of that
// frame. Only unconditional panics on an execution that has not branched since that call are
// supported (anything else is reported as unsupported = inconclusive).
type unwind struct {
	val Value
	st  *St
	msg string
	pos string
	stk string
}

func (e *Engine) loopBound(fn *ssa.Function) int {
	if b, ok := e.Cfg.LoopBounds[fn.String()]; ok {
		return b
	}
	if b, ok := e.Cfg.LoopBounds[fn.Name()]; ok {
		return b
	}
	return e.Cfg.LoopBound
}

func (e *Engine) feasible(pc *T) bool {
	if pc.IsFalse() {
		return false
	}
	if pc.IsTrue() || e.Cfg.Session == nil {
		return true
	}
	return e.Cfg.Session.Feasible(pc) != "unsat"
}

// childOf returns the loop that is a direct child of region (nil = function) and contains b,
// or nil if b lies directly in the region. inRegion=false if b is outside the region.
func childOf(fi *fnInfo, region *loop, b *ssa.BasicBlock) (child *loop, inRegion bool) {
	l := fi.loopOf[b]
	if region != nil && !region.body[b] {
		return nil, false
	}
	if l == region {
		return nil, true
	}
	for l != nil && l.parent != region {
		l = l.parent
	}
	if l == nil {
		return nil, false
	}
	return l, true
}

type regionOut struct {
	exits map[*ssa.BasicBlock][]*St
	backs []*St
}

// join adds s to a list of pending states: merged into one state in merge mode, kept
// separate in fork (path) mode.
func (e *Engine) join(fr *frame, list []*St, s *St) []*St {
	if s == nil || s.pc.IsFalse() {
		return list
	}
	if fr.forkMode || len(list) == 0 {
		return append(list, s)
	}
	list[0] = e.mergeSt(list[0], s)
	return list
}

func (e *Engine) runRegion(fr *frame, region *loop, entry *ssa.BasicBlock, sts []*St) regionOut {
	fi := fr.fi
	out := regionOut{exits: map[*ssa.BasicBlock][]*St{}}
	pending := map[*ssa.BasicBlock][]*St{entry: sts}
	var route func(to *ssa.BasicBlock, s *St)
	route = func(to *ssa.BasicBlock, s *St) {
		if s == nil || s.pc.IsFalse() {
			return
		}
		if region != nil && to == region.header {
			out.backs = e.join(fr, out.backs, s)
			return
		}
		if region != nil && !region.body[to] {
			out.exits[to] = e.join(fr, out.exits[to], s)
			return
		}
		pending[to] = e.join(fr, pending[to], s)
	}
	deliver := func(from, to *ssa.BasicBlock, s *St) {
		if s.pc.IsFalse() {
			return
		}
		// resolve phis of `to` for this edge, simultaneously
		idx := -1
		for i, p := range to.Preds {
			if p == from {
				idx = i
				break
			}
		}
		var phis []*ssa.Phi
		var vals []Value
		for _, in := range to.Instrs {
			phi, ok := in.(*ssa.Phi)
			if !ok {
				break
			}
			phis = append(phis, phi)
			vals = append(vals, e.val(s, phi.Edges[idx]))
		}
		for i, phi := range phis {
			s.env[phi] = vals[i]
		}
		route(to, s)
	}
	start := fi.rpoIdx[entry]
	for bi := start; bi < len(fi.rpo); bi++ {
		b := fi.rpo[bi]
		list := pending[b]
		if len(list) == 0 {
			continue
		}
		child, in := childOf(fi, region, b)
		if !in {
			continue
		}
		delete(pending, b)
		if child != nil {
			if b != child.header {
				panic(fmt.Sprintf("engine: entered loop not at header in %s", fr.fn))
			}
			exits := e.runLoop(fr, child, list)
			// deterministic order
			var tgts []*ssa.BasicBlock
			for t := range exits {
				tgts = append(tgts, t)
			}
			sort.Slice(tgts, func(i, j int) bool { return tgts[i].Index < tgts[j].Index })
			for _, t := range tgts {
				for _, s := range exits[t] {
					route(t, s)
				}
			}
			continue
		}
		for _, s := range list {
			e.execBlock(fr, b, s, deliver)
		}
	}
	return out
}

func (e *Engine) runLoop(fr *frame, l *loop, sts []*St) map[*ssa.BasicBlock][]*St {
	all := map[*ssa.BasicBlock][]*St{}
	K := e.loopBound(fr.fn)
	entry := sts
	known := map[*T]bool{} // path conditions already known to be feasible
	for _, s := range sts {
		if s != nil {
			known[s.pc] = true
		}
	}
	for pass := 0; ; pass++ {
		var live []*St
		for _, s := range entry {
			if s == nil || s.pc.IsFalse() {
				continue
			}
			if pass > 0 && !s.pc.IsTrue() && !known[s.pc] && !e.feasible(s.pc) {
				continue
			}
			known[s.pc] = true
			live = append(live, s)
		}
		if len(live) == 0 {
			break
		}
		if pass >= K {
			for _, s := range live {
				e.Unwinds = append(e.Unwinds, Record{Cond: s.pc, Msg: fmt.Sprintf("loop in %s not exhausted after %d passes", fr.fn, K), Pos: e.posOf(l.header), Stack: e.where(), Kind: "unwind"})
			}
			break
		}
		if e.Cfg.Trace {
			fmt.Fprintf(os.Stderr, "%*sloop %s@%s pass %d states=%d terms=%d instrs=%d\n", len(e.stack), "", fr.fn.Name(), e.posOf(l.header), pass, len(live), e.S.Created, e.Instrs)
		}
		ro := e.runRegion(fr, l, l.header, live)
		for t, ss := range ro.exits {
			for _, s := range ss {
				all[t] = e.join(fr, all[t], s)
			}
		}
		entry = ro.backs
	}
	return all
}

func (e *Engine) posOf(b *ssa.BasicBlock) string {
	for _, in := range b.Instrs {
		if in.Pos().IsValid() {
			p := e.Prog.Fset.Position(in.Pos())
			return fmt.Sprintf("%s:%d", shortFile(p.Filename), p.Line)
		}
	}
	return b.Parent().String()
}

func (e *Engine) posStr(p token.Pos) string {
	if !p.IsValid() {
		return ""
	}
	q := e.Prog.Fset.Position(p)
	return fmt.Sprintf("%s:%d", shortFile(q.Filename), q.Line)
}

// panicIf records a panic under cond and removes cond from the state.
func (e *Engine) panicIf(st *St, cond *T, msg string) {
	c := e.S.And(st.pc, cond)
	if c.IsFalse() {
		return
	}
	if e.deferFrames > 0 && e.booting == 0 {
		if !cond.IsTrue() {
			if !e.feasible(c) {
				// cannot happen on this path
				st.pc = e.S.And(st.pc, e.S.Not(cond))
				return
			}
			if e.feasible(e.S.And(st.pc, e.S.Not(cond))) {
				e.unsupported("conditional run-time panic (" + msg + ") below a function with deferred calls")
			}
		}
		panic(&unwind{val: e.constStringIface("runtime error: " + msg), st: st, msg: msg, pos: e.curPos(), stk: e.where()})
	}
	e.Panics = append(e.Panics, Record{Cond: c, Msg: msg, Pos: e.curPos(), Stack: e.where(), Kind: "panic"})
	st.pc = e.S.And(st.pc, e.S.Not(cond))
}

func (e *Engine) constStringIface(s string) Value {
	return &IfaceV{Alts: []IfaceAlt{{G: e.S.True, T: types.Typ[types.String], V: e.constString(s)}}}
}

// runDefers executes the pending deferred calls of fr (last in, first out) on st.
func (e *Engine) runDefers(fr *frame, st *St) {
	ds := fr.defers(st)
	delete(st.env, fr.fn)
	e.deferFrames -= len(ds)
	for i := len(ds) - 1; i >= 0; i-- {
		d := ds[i]
		if st.pc.IsFalse() {
			return
		}
		if d.fn != nil {
			e.callStatic(st, d.fn, d.args, nil, d.call)
		} else {
			e.callFuncV(st, d.fv, d.args, d.call)
		}
	}
}

// panicInFrame handles a panic that reached frame fr (raised in fr itself or caught at one of
// its call instructions): the frame's deferred calls run; if one of them recovers, the function
// returns normally (zero results: named results are not modelled); otherwise the panic goes on.
// st is fr's state on the panicking path. Returns after the path has been disposed of.
func (e *Engine) panicInFrame(fr *frame, st *St, u *unwind) {
	if len(fr.defers(st)) > 0 {
		e.panicking = u
		e.runDefers(fr, st)
		if e.panicking == nil {
			if fr.fn.Signature.Results().Len() > 0 && fr.fn.Recover == nil {
				e.unsupported("recovered panic in a function with unnamed results")
			}
			fr.returns = append(fr.returns, retRec{st: st, vals: e.zeroResults(fr.fn)})
			return
		}
		e.panicking = nil
	}
	if e.deferFrames > 0 {
		u.st = st
		panic(u)
	}
	e.Panics = append(e.Panics, Record{Cond: st.pc, Msg: u.msg, Pos: u.pos, Stack: u.stk, Kind: "explicit-panic"})
	st.pc = e.S.False
}

func (e *Engine) curPos() string {
	for i := len(e.posStack) - 1; i >= 0; i-- {
		if e.posStack[i].IsValid() {
			return e.posStr(e.posStack[i])
		}
	}
	return ""
}

// CallFunc executes fn on args starting from st; st is updated to the merged return state.
func (e *Engine) CallFunc(st *St, fn *ssa.Function, args []Value, bind []Value) []Value {
	rets := e.callMulti(st, fn, args, bind)
	var merged *St
	var vals []Value
	for _, r := range rets {
		if r.st.pc.IsFalse() {
			continue
		}
		if merged == nil {
			merged, vals = r.st, r.vals
			continue
		}
		g := e.selector(r.st.pc, merged.pc)
		nv := make([]Value, len(vals))
		for i := range vals {
			nv[i] = e.Merge(g, r.vals[i], vals[i])
		}
		nm := &St{pc: e.S.Or(r.st.pc, merged.pc), heap: e.mergeHeaps(g, r.st.heap, merged.heap)}
		merged, vals = nm, nv
		e.Merges++
	}
	if merged == nil {
		st.pc = e.S.False
		return e.zeroResults(fn)
	}
	st.pc, st.heap = merged.pc, merged.heap
	e.cur = st
	return vals
}

// callMulti runs fn and returns its return records unmerged (one per return site in merge
// mode, one per path in fork mode).
func (e *Engine) callMulti(st *St, fn *ssa.Function, args []Value, bind []Value) []retRec {
	if fn.Blocks == nil {
		e.unsupported("call of function without body: " + fn.String())
	}
	depth := 0
	for _, f := range e.stack {
		if f == fn {
			depth++
		}
	}
	if depth >= e.Cfg.RecBound {
		if e.feasible(st.pc) {
			e.Unwinds = append(e.Unwinds, Record{Cond: st.pc, Msg: fmt.Sprintf("recursion of %s deeper than %d", fn, e.Cfg.RecBound), Stack: e.where(), Kind: "unwind"})
		}
		return nil
	}
	if len(e.stack) > 200 {
		e.unsupported("call stack too deep")
	}
	e.FuncsSeen[fn.String()]++
	if e.Cfg.Trace && e.booting == 0 {
		fmt.Fprintf(os.Stderr, "%*scall %s terms=%d\n", len(e.stack), "", fn.String(), e.S.Created)
	}
	fr := &frame{fn: fn, fi: e.info(fn), forkMode: e.isFork(fn) && e.booting == 0, hasDefer: fnHasDefer(fn)}
	savedStack, savedPos := e.stack, e.posStack
	e.stack = append(e.stack, fn)
	e.posStack = append(e.posStack, token.NoPos)
	defer func() {
		e.stack, e.posStack = savedStack, savedPos
	}()
	ent := &St{pc: st.pc, heap: st.heap, env: make(map[ssa.Value]Value, 32)}
	if len(args) != len(fn.Params) {
		panic(fmt.Sprintf("engine: %s called with %d args, wants %d", fn, len(args), len(fn.Params)))
	}
	for i, p := range fn.Params {
		ent.env[p] = args[i]
	}
	if len(bind) != len(fn.FreeVars) {
		panic(fmt.Sprintf("engine: %s called with %d bindings, wants %d", fn, len(bind), len(fn.FreeVars)))
	}
	for i, fv := range fn.FreeVars {
		ent.env[fv] = bind[i]
	}
	e.runRegion(fr, nil, fn.Blocks[0], []*St{ent})
	return fr.returns
}

func (e *Engine) zeroResults(fn *ssa.Function) []Value {
	res := fn.Signature.Results()
	out := make([]Value, res.Len())
	for i := range out {
		out[i] = e.Zero(res.At(i).Type())
	}
	return out
}

var _ = types.Identical

func (e *Engine) whereDepth() int {
	if os.Getenv("GV_STACK") != "" {
		return 40
	}
	return 6
}
