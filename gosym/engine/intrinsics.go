package engine

import (
	"fmt"
	"go/types"

	"golang.org/x/tools/go/ssa"
)

type intrinsicFn func(e *Engine, st *St, args []Value, fn *ssa.Function) Value

var verifIntrinsics map[string]intrinsicFn
var builtinIntrinsics map[string]intrinsicFn

func (e *Engine) nameArg(st *St, v Value) string {
	s, ok := e.ConstStringOf(st, v.(*SliceV))
	if !ok {
		e.unsupported("verif intrinsic needs a constant name")
	}
	return s
}

// NDCount: how many values of each name were drawn along the current path. It lives in the heap
// (reserved object) so that it forks and merges with the state: the k-th draw of a name along a
// path is variable name#k on every path, exactly as in a native run.
type NDCount struct{ m map[string]int }

const ndObj ObjID = -1

// FileTab: the in-engine file table; lives in the heap like NDCount so that it is per path.
type FileTab struct{ m map[string]*SliceV }

const fileObj ObjID = -2

func (e *Engine) fileTab(st *St) map[string]*SliceV {
	if v, ok := st.heap.lookup(fileObj); ok {
		return v.(*FileTab).m
	}
	return nil
}

func (e *Engine) setFile(st *St, name string, content *SliceV) {
	nm := map[string]*SliceV{}
	for k, v := range e.fileTab(st) {
		nm[k] = v
	}
	if content == nil {
		delete(nm, name)
	} else {
		nm[name] = content
	}
	st.heap.set(fileObj, &FileTab{m: nm})
}

// Fresh returns the next nondeterministic value for name along the current path.
func (e *Engine) Fresh(name string, w int, signed bool) *T {
	st := e.cur
	k := 0
	var cur *NDCount
	if st != nil {
		if v, ok := st.heap.lookup(ndObj); ok {
			cur = v.(*NDCount)
			k = cur.m[name]
		}
		nm := make(map[string]int, 4)
		if cur != nil {
			for kk, vv := range cur.m {
				nm[kk] = vv
			}
		}
		nm[name] = k + 1
		st.heap.set(ndObj, &NDCount{m: nm})
	} else {
		k = e.nondetCount[name]
		e.nondetCount[name] = k + 1
	}
	full := fmt.Sprintf("%s#%d", name, k)
	if !e.ndSeen[full] {
		e.ndSeen[full] = true
		e.Nondets = append(e.Nondets, NondetInfo{Name: full, W: w, Signed: signed})
	}
	if e.Concrete != nil {
		return e.S.Const(uint64(e.Concrete[full]), w)
	}
	return e.S.Var(full, w)
}

func nondet(w int, signed bool) intrinsicFn {
	return func(e *Engine, st *St, args []Value, fn *ssa.Function) Value {
		return e.Fresh(e.nameArg(st, args[0]), w, signed)
	}
}

func init() {
	verifIntrinsics = map[string]intrinsicFn{
		"verifNondetInt":   nondet(64, true),
		"verifNondetInt64": nondet(64, true),
		"verifNondetInt32": nondet(32, true),
		"verifNondetRune":  nondet(32, true),
		"verifNondetByte":  nondet(8, false),
		"verifNondetBool":  nondet(0, false),
		"verifParam": func(e *Engine, st *St, args []Value, fn *ssa.Function) Value {
			name := e.nameArg(st, args[0])
			if v, ok := e.Params[name]; ok {
				return e.c64(int64(v))
			}
			return args[1]
		},
		"verifAssume": func(e *Engine, st *St, args []Value, fn *ssa.Function) Value {
			st.pc = e.S.And(st.pc, args[0].(*T))
			return nil
		},
		"verifAssert": func(e *Engine, st *St, args []Value, fn *ssa.Function) Value {
			c := e.S.And(st.pc, e.S.Not(args[0].(*T)))
			msg := e.nameArg(st, args[1])
			e.Asserts = append(e.Asserts, Record{Cond: c, Msg: msg, Pos: e.callerPos(), Stack: e.where(), Kind: "assert"})
			// continue under the assumption that the assertion held (each assertion is checked on its own)
			st.pc = e.S.And(st.pc, args[0].(*T))
			return nil
		},
		"verifCover": func(e *Engine, st *St, args []Value, fn *ssa.Function) Value {
			e.Covers = append(e.Covers, Record{Cond: st.pc, Msg: e.nameArg(st, args[0]), Pos: e.callerPos(), Kind: "cover"})
			return nil
		},
		// verifUF2(name, a, b) : an arbitrary but fixed function of (a, b)
		"verifUF2": func(e *Engine, st *St, args []Value, fn *ssa.Function) Value {
			name := e.nameArg(st, args[0])
			return e.uf(name, []*T{args[1].(*T), args[2].(*T)}, 64)
		},
		"verifUF1": func(e *Engine, st *St, args []Value, fn *ssa.Function) Value {
			name := e.nameArg(st, args[0])
			return e.uf(name, []*T{args[1].(*T)}, 64)
		},
		// verifWritesShared reports (as a Go bool) nothing natively; symbolic runs use write tracking
		// verifMapOrderOne(on): from here on, ONE execution of a range over a map (which one: every
		// choice is explored on its own path) visits the entries in another order
		"verifMapOrderOne": func(e *Engine, st *St, args []Value, fn *ssa.Function) Value {
			if args[0].(*T).IsTrue() {
				st.heap.set(permObj, e.c64(1))
			} else {
				st.heap.set(permObj, e.c64(0))
			}
			return nil
		},
		// verifDeepEqual(a, b): structural equality of two values (reflect.DeepEqual natively)
		"verifDeepEqual": func(e *Engine, st *St, args []Value, fn *ssa.Function) Value {
			return e.deepEq(st, args[0], args[1], 0)
		},
		"verifSymbolic": func(e *Engine, st *St, args []Value, fn *ssa.Function) Value {
			return e.S.True
		},
		"verifTrackWrites": func(e *Engine, st *St, args []Value, fn *ssa.Function) Value {
			on := args[0].(*T)
			e.TrackWrites = on.IsTrue()
			e.trackLimit = e.nextObj
			return nil
		},
	}
	builtinIntrinsics = map[string]intrinsicFn{
		"fmt.Sprintf":  opaqueString,
		"fmt.Sprint":   opaqueString,
		"fmt.Sprintln": opaqueString,
		"fmt.Errorf":   opaqueError,
		"fmt.Printf":   zeroResult,
		"fmt.Println":  zeroResult,
		"fmt.Print":    zeroResult,
		"fmt.Fprintf":  zeroResult,
		"fmt.Fprintln": zeroResult,
		"fmt.Fprint":   zeroResult,
		"os.Exit": func(e *Engine, st *St, args []Value, fn *ssa.Function) Value {
			code := args[0].(*T)
			e.Exits = append(e.Exits, Record{Cond: st.pc, Msg: fmt.Sprintf("os.Exit(%s)", code), Pos: e.callerPos(), Stack: e.where(), Kind: "exit", Val: code})
			st.pc = e.S.False
			return nil
		},
		"strconv.Itoa":                   opaqueString,
		"strconv.Quote":                  opaqueString,
		"strconv.FormatInt":              opaqueString,
		"(*strings.Builder).WriteString": zeroResult,
		"(*strings.Builder).WriteByte":   zeroResult,
		"(*strings.Builder).WriteRune":   zeroResult,
		"(*strings.Builder).String":      opaqueString,
		"(*strings.Builder).Grow":        zeroResult,
		"(*bytes.Buffer).WriteString":    zeroResult,
		"(*bytes.Buffer).String":         opaqueString,
		"(*os.File).Write":               zeroResult,
		"(*os.File).WriteString":         zeroResult,
		"math.Log10":                     func(e *Engine, st *St, args []Value, fn *ssa.Function) Value { return &OpaqueV{What: "float"} },
		"strings.Repeat":                 opaqueString,
		"strings.Join":                   opaqueString,
		"regexp.MustCompile":             zeroResult,
	}
}

func (e *Engine) callerPos() string {
	for i := len(e.posStack) - 1; i >= 0; i-- {
		if e.posStack[i].IsValid() {
			return e.posStr(e.posStack[i])
		}
	}
	return ""
}

func opaqueString(e *Engine, st *St, args []Value, fn *ssa.Function) Value {
	return e.constString("<opaque:" + fn.Name() + ">")
}

func opaqueError(e *Engine, st *St, args []Value, fn *ssa.Function) Value {
	// a non-nil error value of an engine-private dynamic type
	return &IfaceV{Alts: []IfaceAlt{{G: e.S.True, T: e.opaqueErrType(), V: e.constString("<error>")}}}
}

var opaqueErrT types.Type

func (e *Engine) opaqueErrType() types.Type {
	if opaqueErrT == nil {
		opaqueErrT = types.NewNamed(types.NewTypeName(0, nil, "verifOpaqueError", nil), types.Typ[types.String], nil)
	}
	return opaqueErrT
}

func zeroResult(e *Engine, st *St, args []Value, fn *ssa.Function) Value {
	res := fn.Signature.Results()
	switch res.Len() {
	case 0:
		return nil
	case 1:
		return e.Zero(res.At(0).Type())
	}
	return e.Zero(res)
}

// uf models an uninterpreted function by Ackermann expansion.
func (e *Engine) uf(name string, args []*T, w int) *T {
	calls := e.ufCalls[name]
	for _, c := range calls {
		same := true
		for i := range args {
			if c.args[i] != args[i] {
				same = false
				break
			}
		}
		if same {
			return c.res
		}
	}
	res := e.S.Var(fmt.Sprintf("uf:%s#%d", name, len(calls)), w)
	for _, c := range calls {
		eq := e.S.True
		for i := range args {
			eq = e.S.And(eq, e.S.Eq(c.args[i], args[i]))
		}
		if eq.IsFalse() {
			continue
		}
		e.Axioms = append(e.Axioms, e.S.Implies(eq, e.S.Eq(c.res, res)))
	}
	e.ufCalls[name] = append(calls, ufCall{args: args, res: res})
	return res
}

// UFCalls exposes the recorded applications (for replay tables).
func (e *Engine) UFCalls(name string) (args [][]*T, res []*T) {
	for _, c := range e.ufCalls[name] {
		args = append(args, c.args)
		res = append(res, c.res)
	}
	return
}

func (e *Engine) UFNames() []string {
	var ns []string
	for n := range e.ufCalls {
		ns = append(ns, n)
	}
	return ns
}

// noteWrite records stores to objects that existed before tracking started.
func (e *Engine) noteWrite(st *St, obj ObjID, g *T) {
	if !e.TrackWrites || e.booting > 0 {
		return
	}
	if obj > e.trackLimit && !e.sharedObjs[obj] {
		return
	}
	if e.trackExempt[obj] {
		return
	}
	c := e.S.And(st.pc, g)
	if c.IsFalse() {
		return
	}
	e.SharedWrite = append(e.SharedWrite, Record{Cond: c, Msg: fmt.Sprintf("write to pre-existing object #%d", obj), Pos: e.curPos(), Stack: e.where(), Kind: "shared-write"})
}

// UFOfString applies an uninterpreted function to (string contents, extra scalar args) and
// returns (value int64-like, error) as a tuple: the error is nil iff a second uninterpreted
// function of the same arguments is zero.
func (e *Engine) UFOfString(st *St, name string, s Value, extra []Value) Value {
	str := s.(*SliceV)
	n := e.maxLen(st, str)
	args := []*T{str.Len}
	for i := 0; i < n; i++ {
		ci := e.c64(int64(i))
		b := e.byteAt(st, str, ci)
		// bytes beyond the length do not matter: normalise them to zero
		args = append(args, e.S.Ite(e.S.SLt(ci, str.Len), b, e.S.Const(0, 8)))
	}
	for _, x := range extra {
		args = append(args, x.(*T))
	}
	val := e.uf(name, args, 64)
	errv := e.uf(name+".err", args, 64)
	isErr := e.S.Not(e.S.Eq(errv, e.c64(0)))
	errVal := e.Merge(isErr, opaqueError(e, st, nil, nil), &IfaceV{Alts: []IfaceAlt{{G: e.S.True}}})
	return &TupleV{V: []Value{val, errVal}}
}

// ReadGlobal returns the current value of a package-level variable.
func (e *Engine) ReadGlobal(st *St, pkgPath, name string) Value {
	for _, p := range e.Prog.AllPackages() {
		if p.Pkg.Path() == pkgPath {
			if g, ok := p.Members[name].(*ssa.Global); ok {
				return e.Load(st, e.ptrTo(e.globalObj(g)), "global "+name)
			}
		}
	}
	e.unsupported("no global " + pkgPath + "." + name)
	return nil
}

// AssertAt records an assertion from engine-side code.
func (e *Engine) AssertAt(st *St, cond *T, msg string) {
	e.Asserts = append(e.Asserts, Record{Cond: e.S.And(st.pc, e.S.Not(cond)), Msg: msg, Pos: e.callerPos(), Stack: e.where(), Kind: "assert"})
}

func (e *Engine) CoverAt(st *St, msg string) {
	e.Covers = append(e.Covers, Record{Cond: st.pc, Msg: msg, Pos: e.callerPos(), Kind: "cover"})
}

// Kill ends the path.
func (e *Engine) Kill(st *St) { st.pc = e.S.False }

// ---- table injection (for package state the engine cannot compute itself) ----------------

// NamedType returns the named type of a package.
func (e *Engine) NamedType(pkgPath, name string) types.Type {
	for _, p := range e.Prog.AllPackages() {
		if p.Pkg.Path() == pkgPath {
			if t := p.Type(name); t != nil {
				return t.Type()
			}
		}
	}
	return nil
}

// SetGlobal overwrites a package-level variable in the base heap.
func (e *Engine) SetGlobal(pkgPath, name string, v Value) {
	for _, p := range e.Prog.AllPackages() {
		if p.Pkg.Path() == pkgPath {
			if g, ok := p.Members[name].(*ssa.Global); ok {
				e.base[e.globalObj(g)] = v
				return
			}
		}
	}
	e.unsupported("no global " + pkgPath + "." + name)
}

func (e *Engine) IntV(v int64, w int) Value { return e.S.ConstInt(v, w) }
func (e *Engine) BoolV(b bool) Value        { return e.S.Bool(b) }
func (e *Engine) NilIface() Value           { return &IfaceV{Alts: []IfaceAlt{{G: e.S.True}}} }
func (e *Engine) IfaceOf(t types.Type, v Value) Value {
	return &IfaceV{Alts: []IfaceAlt{{G: e.S.True, T: t, V: v}}}
}
func StructOf(f ...Value) Value { return &StructV{F: f} }

// Pack turns a result list into the value a call instruction yields.
func Pack(vals []Value) Value  { return pack(vals) }
func ArrayOf(el []Value) Value { return &ArrayV{E: el} }

// EnsureInit runs a package's initialiser now (subject to the init policy).
func (e *Engine) EnsureInit(pkgPath string) {
	for _, p := range e.Prog.AllPackages() {
		if p.Pkg.Path() == pkgPath {
			e.ensureInit(p)
		}
	}
}

func init() {
	indexByte := func(e *Engine, st *St, args []Value, fn *ssa.Function) Value {
		s := args[0].(*SliceV)
		c := args[1].(*T)
		n := e.maxLen(st, s)
		res := e.c64(-1)
		for i := n - 1; i >= 0; i-- {
			ci := e.c64(int64(i))
			in := e.S.SLt(ci, s.Len)
			if in.IsFalse() {
				continue
			}
			hit := e.S.And(in, e.S.Eq(e.byteAt(st, s, ci), c))
			res = e.S.Ite(hit, ci, res)
		}
		return res
	}
	builtinIntrinsics["internal/bytealg.IndexByte"] = indexByte
	builtinIntrinsics["internal/bytealg.IndexByteString"] = indexByte
}

// UF1 applies a named uninterpreted function to one scalar argument.
func (e *Engine) UF1(name string, arg *T, w int) *T { return e.uf(name, []*T{arg}, w) }

// A tiny in-engine file table: os.WriteFile stores the (symbolic) bytes under a constant name,
// os.ReadFile returns a copy of them, os.Remove forgets them.
func init() {
	builtinIntrinsics["os.WriteFile"] = func(e *Engine, st *St, args []Value, fn *ssa.Function) Value {
		name, ok := e.ConstStringOf(st, args[0].(*SliceV))
		if !ok {
			e.unsupported("os.WriteFile with a symbolic name")
		}
		e.setFile(st, name, e.copyBytes(st, args[1].(*SliceV), false))
		return &IfaceV{Alts: []IfaceAlt{{G: e.S.True}}}
	}
	builtinIntrinsics["os.ReadFile"] = func(e *Engine, st *St, args []Value, fn *ssa.Function) Value {
		name, ok := e.ConstStringOf(st, args[0].(*SliceV))
		if !ok {
			e.unsupported("os.ReadFile with a symbolic name")
		}
		f, ok := e.fileTab(st)[name]
		if !ok {
			return &TupleV{V: []Value{e.Zero(fn.Signature.Results().At(0).Type()), opaqueError(e, st, nil, nil)}}
		}
		return &TupleV{V: []Value{e.copyBytes(st, f, false), &IfaceV{Alts: []IfaceAlt{{G: e.S.True}}}}}
	}
	builtinIntrinsics["os.Remove"] = func(e *Engine, st *St, args []Value, fn *ssa.Function) Value {
		if name, ok := e.ConstStringOf(st, args[0].(*SliceV)); ok {
			e.setFile(st, name, nil)
		}
		return &IfaceV{Alts: []IfaceAlt{{G: e.S.True}}}
	}
}

// sort.Slice uses reflection (reflectlite.Swapper); it is modelled by what the real function does
// for fewer than 12 elements: a (stable) insertion sort driven by the caller's less function.
func init() {
	builtinIntrinsics["sort.Slice"] = func(e *Engine, st *St, args []Value, fn *ssa.Function) Value {
		iv, ok := args[0].(*IfaceV)
		if !ok || len(iv.Alts) != 1 {
			e.unsupported("sort.Slice on a value of unknown type")
		}
		sl, ok := iv.Alts[0].V.(*SliceV)
		if !ok || !sl.Len.IsConst() {
			e.unsupported("sort.Slice on a slice of symbolic length")
		}
		n := int(sl.Len.Int())
		if n >= 12 {
			e.unsupported("sort.Slice model covers fewer than 12 elements")
		}
		less := args[1].(*FuncV)
		for i := 1; i < n; i++ {
			active := e.S.True
			for j := i; j > 0; j-- {
				r := e.callFuncV(st, less, []Value{e.c64(int64(j)), e.c64(int64(j - 1))}, nil).(*T)
				c := e.S.And(active, r)
				if c.IsFalse() {
					break
				}
				pj, pj1 := e.elemPtr(sl, e.c64(int64(j))), e.elemPtr(sl, e.c64(int64(j-1)))
				vj, vj1 := e.Load(st, pj, "sort swap"), e.Load(st, pj1, "sort swap")
				e.storeCond(st, pj, vj1, c)
				e.storeCond(st, pj1, vj, c)
				active = c
			}
		}
		return nil
	}
}

// deepEq: structural equality over the heap (pointers are followed; maps and functions must be
// identical objects).
func (e *Engine) deepEq(st *St, a, b Value, depth int) *T {
	S := e.S
	if depth > 24 {
		e.unsupported("verifDeepEqual: structure deeper than 24 levels")
	}
	switch x := a.(type) {
	case nil:
		return S.Bool(b == nil)
	case *T:
		y, ok := b.(*T)
		if !ok || y.W != x.W {
			return S.False
		}
		return S.Eq(x, y)
	case *StructV:
		y, ok := b.(*StructV)
		if !ok || len(y.F) != len(x.F) {
			return S.False
		}
		r := S.True
		for i := range x.F {
			r = S.And(r, e.deepEq(st, x.F[i], y.F[i], depth+1))
		}
		return r
	case *ArrayV:
		y, ok := b.(*ArrayV)
		if !ok || len(y.E) != len(x.E) {
			return S.False
		}
		r := S.True
		for i := range x.E {
			r = S.And(r, e.deepEq(st, x.E[i], y.E[i], depth+1))
		}
		return r
	case *TupleV:
		y, ok := b.(*TupleV)
		if !ok || len(y.V) != len(x.V) {
			return S.False
		}
		r := S.True
		for i := range x.V {
			r = S.And(r, e.deepEq(st, x.V[i], y.V[i], depth+1))
		}
		return r
	case *SliceV:
		y, ok := b.(*SliceV)
		if !ok {
			return S.False
		}
		if x.IsStr || y.IsStr {
			return e.stringEq(x, y)
		}
		if !x.Len.IsConst() || !y.Len.IsConst() {
			e.unsupported("verifDeepEqual on a slice of symbolic length")
		}
		if x.Len.Int() != y.Len.Int() {
			return S.False
		}
		r := S.True
		for i := int64(0); i < x.Len.Int(); i++ {
			va := e.Load(st, e.elemPtr(x, e.c64(i)), "deep equality")
			vb := e.Load(st, e.elemPtr(y, e.c64(i)), "deep equality")
			r = S.And(r, e.deepEq(st, va, vb, depth+1))
		}
		return r
	case *PtrV:
		y, ok := b.(*PtrV)
		if !ok {
			return S.False
		}
		if len(x.Alts) != 1 || len(y.Alts) != 1 {
			e.unsupported("verifDeepEqual on a pointer with several alternatives")
		}
		if x.Alts[0].Obj == 0 || y.Alts[0].Obj == 0 {
			return S.Bool(x.Alts[0].Obj == y.Alts[0].Obj)
		}
		if x.Alts[0].Obj == y.Alts[0].Obj && samePath(x.Alts[0].Path, y.Alts[0].Path) {
			return S.True
		}
		return e.deepEq(st, e.Load(st, x, "deep equality"), e.Load(st, y, "deep equality"), depth+1)
	case *IfaceV:
		y, ok := b.(*IfaceV)
		if !ok {
			return S.False
		}
		if len(x.Alts) != 1 || len(y.Alts) != 1 {
			e.unsupported("verifDeepEqual on an interface with several alternatives")
		}
		if x.Alts[0].T == nil || y.Alts[0].T == nil {
			return S.Bool(x.Alts[0].T == nil && y.Alts[0].T == nil)
		}
		if !types.Identical(x.Alts[0].T, y.Alts[0].T) {
			return S.False
		}
		return e.deepEq(st, x.Alts[0].V, y.Alts[0].V, depth+1)
	case *MapV:
		y, ok := b.(*MapV)
		if !ok {
			return S.False
		}
		return e.ptrEq(x.Ref, y.Ref)
	case *FuncV:
		return S.True
	case *OpaqueV:
		return S.True
	}
	e.unsupported(fmt.Sprintf("verifDeepEqual on %T", a))
	return nil
}
