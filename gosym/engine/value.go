// Package engine is a merged symbolic executor for go/ssa producing QF_BV terms.
package engine

import (
	"fmt"
	"go/types"

	"golang.org/x/tools/go/ssa"

	"verif/gosym/term"
)

type T = term.Term

type ObjID int

// Value is one of: *T (scalar), *StructV, *ArrayV, *PtrV, *SliceV, *IfaceV, *FuncV,
// *MapV, *TupleV, *OpaqueV.
type Value interface{}

type StructV struct{ F []Value }
type ArrayV struct{ E []Value }
type TupleV struct{ V []Value }

// OpaqueV stands for values the engine does not interpret (floats, channels, ...).
type OpaqueV struct{ What string }

// PathElem selects a struct field (Idx==nil) or an array element.
type PathElem struct {
	Field int
	Idx   *T
}

type PtrAlt struct {
	G    *T
	Obj  ObjID // 0 = nil pointer
	Path []PathElem
}

// PtrV is a guarded union of locations; exactly one guard holds on every feasible path.
type PtrV struct{ Alts []PtrAlt }

// SliceV is a slice or (IsStr) a string. Base points at an ArrayV container.
type SliceV struct {
	Base          *PtrV
	Off, Len, Cap *T
	IsStr         bool
}

type IfaceAlt struct {
	G *T
	T types.Type // nil = nil interface
	V Value
}
type IfaceV struct{ Alts []IfaceAlt }

type FuncAlt struct {
	G    *T
	Fn   *ssa.Function // nil = nil func
	Bind []Value
}
type FuncV struct{ Alts []FuncAlt }

// MapV: a reference to a map object (content *MapC). Ptr nil-alt = nil map.
type MapV struct{ Ref *PtrV }

type MapEntry struct {
	K, V Value
	P    *T // present
}
type MapC struct {
	E []MapEntry
}

func (e *Engine) nilPtr() *PtrV { return &PtrV{Alts: []PtrAlt{{G: e.S.True, Obj: 0}}} }

func (e *Engine) ptrTo(obj ObjID, path ...PathElem) *PtrV {
	return &PtrV{Alts: []PtrAlt{{G: e.S.True, Obj: obj, Path: path}}}
}

func intInfo(t types.Type) (w int, signed bool, ok bool) {
	b, isb := t.Underlying().(*types.Basic)
	if !isb {
		return 0, false, false
	}
	switch b.Kind() {
	case types.Int, types.Int64, types.UntypedInt:
		return 64, true, true
	case types.Uint, types.Uint64, types.Uintptr:
		return 64, false, true
	case types.Int32, types.UntypedRune:
		return 32, true, true
	case types.Uint32:
		return 32, false, true
	case types.Int16:
		return 16, true, true
	case types.Uint16:
		return 16, false, true
	case types.Int8:
		return 8, true, true
	case types.Uint8:
		return 8, false, true
	}
	return 0, false, false
}

func isBoolType(t types.Type) bool {
	b, ok := t.Underlying().(*types.Basic)
	return ok && (b.Kind() == types.Bool || b.Kind() == types.UntypedBool)
}

func isStringType(t types.Type) bool {
	b, ok := t.Underlying().(*types.Basic)
	return ok && (b.Kind() == types.String || b.Kind() == types.UntypedString)
}

// Zero returns the zero value of a type.
func (e *Engine) Zero(t types.Type) Value {
	switch u := t.Underlying().(type) {
	case *types.Basic:
		if w, _, ok := intInfo(u); ok {
			return e.S.Const(0, w)
		}
		if isBoolType(u) {
			return e.S.False
		}
		if isStringType(u) {
			return e.emptyString()
		}
		if u.Kind() == types.UnsafePointer {
			return e.nilPtr()
		}
		return &OpaqueV{What: u.String()}
	case *types.Pointer:
		return e.nilPtr()
	case *types.Slice:
		return &SliceV{Base: e.nilPtr(), Off: e.c64(0), Len: e.c64(0), Cap: e.c64(0)}
	case *types.Struct:
		s := &StructV{F: make([]Value, u.NumFields())}
		for i := range s.F {
			s.F[i] = e.Zero(u.Field(i).Type())
		}
		return s
	case *types.Array:
		a := &ArrayV{E: make([]Value, u.Len())}
		if u.Len() > 0 {
			z := e.Zero(u.Elem())
			for i := range a.E {
				a.E[i] = z // values are immutable, sharing is fine
			}
		}
		return a
	case *types.Interface:
		return &IfaceV{Alts: []IfaceAlt{{G: e.S.True}}}
	case *types.Signature:
		return &FuncV{Alts: []FuncAlt{{G: e.S.True}}}
	case *types.Map:
		return &MapV{Ref: e.nilPtr()}
	case *types.Chan:
		return &OpaqueV{What: "chan"}
	case *types.Tuple:
		tv := &TupleV{V: make([]Value, u.Len())}
		for i := range tv.V {
			tv.V[i] = e.Zero(u.At(i).Type())
		}
		return tv
	}
	panic(fmt.Sprintf("engine: zero of %T %s", t.Underlying(), t))
}

func (e *Engine) c64(v int64) *T { return e.S.ConstInt(v, 64) }

func (e *Engine) emptyString() *SliceV {
	return &SliceV{Base: e.nilPtr(), Off: e.c64(0), Len: e.c64(0), IsStr: true}
}

// ---- merging -------------------------------------------------------------

func samePath(a, b []PathElem) bool {
	if len(a) != len(b) {
		return false
	}
	for i := range a {
		if a[i].Field != b[i].Field || a[i].Idx != b[i].Idx {
			return false
		}
	}
	return true
}

// sameShape: equal up to index terms.
func sameShape(a, b []PathElem) bool {
	if len(a) != len(b) {
		return false
	}
	for i := range a {
		if (a[i].Idx == nil) != (b[i].Idx == nil) {
			return false
		}
		if a[i].Idx == nil && a[i].Field != b[i].Field {
			return false
		}
	}
	return true
}

func (e *Engine) mergePtr(g *T, a, b *PtrV) *PtrV {
	if a == b {
		return a
	}
	if len(a.Alts) == 1 && len(b.Alts) == 1 && a.Alts[0].Obj == b.Alts[0].Obj && samePath(a.Alts[0].Path, b.Alts[0].Path) {
		return a
	}
	var out []PtrAlt
	add := func(gg *T, alt PtrAlt) {
		ng := e.S.And(gg, alt.G)
		if ng.IsFalse() {
			return
		}
		for i := range out {
			if out[i].Obj == alt.Obj && sameShape(out[i].Path, alt.Path) {
				// merge index terms
				np := make([]PathElem, len(alt.Path))
				for k := range alt.Path {
					np[k] = alt.Path[k]
					if alt.Path[k].Idx != nil && alt.Path[k].Idx != out[i].Path[k].Idx {
						np[k].Idx = e.S.Ite(ng, alt.Path[k].Idx, out[i].Path[k].Idx)
					}
				}
				out[i].Path = np
				out[i].G = e.S.Or(out[i].G, ng)
				return
			}
		}
		out = append(out, PtrAlt{G: ng, Obj: alt.Obj, Path: alt.Path})
	}
	ng := e.S.Not(g)
	for _, x := range a.Alts {
		add(g, x)
	}
	for _, x := range b.Alts {
		add(ng, x)
	}
	if len(out) == 0 {
		return e.nilPtr()
	}
	if len(out) == 1 {
		out[0].G = e.S.True
	}
	return &PtrV{Alts: out}
}

// Merge returns ite(g, a, b) for structured values.
func (e *Engine) Merge(g *T, a, b Value) Value {
	if a == b {
		return a
	}
	if g.IsTrue() {
		return a
	}
	if g.IsFalse() {
		return b
	}
	if a == nil {
		return b
	}
	if b == nil {
		return a
	}
	switch x := a.(type) {
	case *T:
		y, ok := b.(*T)
		if !ok {
			panic(fmt.Sprintf("engine: merge scalar with %T", b))
		}
		return e.S.Ite(g, x, y)
	case *StructV:
		y := b.(*StructV)
		out := &StructV{F: make([]Value, len(x.F))}
		same := true
		for i := range x.F {
			out.F[i] = e.Merge(g, x.F[i], y.F[i])
			if out.F[i] != x.F[i] {
				same = false
			}
		}
		if same {
			return x
		}
		return out
	case *ArrayV:
		y := b.(*ArrayV)
		if len(x.E) != len(y.E) {
			panic("engine: merge arrays of different length")
		}
		out := &ArrayV{E: make([]Value, len(x.E))}
		same := true
		for i := range x.E {
			out.E[i] = e.Merge(g, x.E[i], y.E[i])
			if out.E[i] != x.E[i] {
				same = false
			}
		}
		if same {
			return x
		}
		return out
	case *TupleV:
		y := b.(*TupleV)
		out := &TupleV{V: make([]Value, len(x.V))}
		for i := range x.V {
			out.V[i] = e.Merge(g, x.V[i], y.V[i])
		}
		return out
	case *PtrV:
		return e.mergePtr(g, x, b.(*PtrV))
	case *SliceV:
		y := b.(*SliceV)
		out := &SliceV{Base: e.mergePtr(g, x.Base, y.Base), Off: e.S.Ite(g, x.Off, y.Off), Len: e.S.Ite(g, x.Len, y.Len), IsStr: x.IsStr}
		if !x.IsStr {
			out.Cap = e.S.Ite(g, x.Cap, y.Cap)
		}
		return out
	case *MapV:
		return &MapV{Ref: e.mergePtr(g, x.Ref, b.(*MapV).Ref)}
	case *IfaceV:
		y := b.(*IfaceV)
		var out []IfaceAlt
		add := func(gg *T, alt IfaceAlt) {
			ng := e.S.And(gg, alt.G)
			if ng.IsFalse() {
				return
			}
			for i := range out {
				if (out[i].T == nil && alt.T == nil) || (out[i].T != nil && alt.T != nil && types.Identical(out[i].T, alt.T)) {
					if alt.T != nil {
						out[i].V = e.Merge(ng, alt.V, out[i].V)
					}
					out[i].G = e.S.Or(out[i].G, ng)
					return
				}
			}
			out = append(out, IfaceAlt{G: ng, T: alt.T, V: alt.V})
		}
		for _, al := range x.Alts {
			add(g, al)
		}
		ng := e.S.Not(g)
		for _, al := range y.Alts {
			add(ng, al)
		}
		if len(out) == 0 {
			return &IfaceV{Alts: []IfaceAlt{{G: e.S.True}}}
		}
		if len(out) == 1 {
			out[0].G = e.S.True
		}
		return &IfaceV{Alts: out}
	case *FuncV:
		y := b.(*FuncV)
		var out []FuncAlt
		add := func(gg *T, alt FuncAlt) {
			ng := e.S.And(gg, alt.G)
			if ng.IsFalse() {
				return
			}
			for i := range out {
				if out[i].Fn == alt.Fn {
					nb := make([]Value, len(alt.Bind))
					for k := range alt.Bind {
						nb[k] = e.Merge(ng, alt.Bind[k], out[i].Bind[k])
					}
					out[i].Bind = nb
					out[i].G = e.S.Or(out[i].G, ng)
					return
				}
			}
			out = append(out, FuncAlt{G: ng, Fn: alt.Fn, Bind: alt.Bind})
		}
		for _, al := range x.Alts {
			add(g, al)
		}
		ng := e.S.Not(g)
		for _, al := range y.Alts {
			add(ng, al)
		}
		if len(out) == 1 {
			out[0].G = e.S.True
		}
		return &FuncV{Alts: out}
	case *MapC:
		y := b.(*MapC)
		// entries: align by position when keys are identical, else append guarded
		out := &MapC{}
		n := len(x.E)
		if len(y.E) < n {
			n = len(y.E)
		}
		i := 0
		for ; i < n; i++ {
			if !e.valueIdentical(x.E[i].K, y.E[i].K) {
				break
			}
			out.E = append(out.E, MapEntry{K: x.E[i].K, V: e.Merge(g, x.E[i].V, y.E[i].V), P: e.S.Ite(g, x.E[i].P, y.E[i].P)})
		}
		for j := i; j < len(x.E); j++ {
			out.E = append(out.E, MapEntry{K: x.E[j].K, V: x.E[j].V, P: e.S.And(g, x.E[j].P)})
		}
		for j := i; j < len(y.E); j++ {
			out.E = append(out.E, MapEntry{K: y.E[j].K, V: y.E[j].V, P: e.S.And(e.S.Not(g), y.E[j].P)})
		}
		return out
	case *OpaqueV:
		return x
	case *NDCount:
		y := b.(*NDCount)
		out := make(map[string]int, len(x.m))
		for k, v := range x.m {
			out[k] = v
		}
		for k, v := range y.m {
			if v > out[k] {
				out[k] = v
			}
		}
		return &NDCount{m: out}
	case *deferList:
		if y, ok := b.(*deferList); ok && y == x {
			return x
		}
		e.unsupported("merge of paths with different pending deferred calls")
		return x
	case *FileTab:
		y := b.(*FileTab)
		out := make(map[string]*SliceV, len(x.m))
		for k, v := range x.m {
			out[k] = v
		}
		for k, v := range y.m {
			if o, ok := out[k]; ok && o != v {
				out[k] = e.Merge(g, o, v).(*SliceV)
			} else {
				out[k] = v
			}
		}
		return &FileTab{m: out}
	case *IterV:
		return x
	}
	panic(fmt.Sprintf("engine: merge of %T", a))
}

func (e *Engine) valueIdentical(a, b Value) bool {
	if a == b {
		return true
	}
	eq := e.valueEq(a, b)
	return eq != nil && eq.IsTrue()
}

// valueEq builds the Go == comparison of two values (nil if unsupported).
func (e *Engine) valueEq(a, b Value) *T {
	switch x := a.(type) {
	case *T:
		y, ok := b.(*T)
		if !ok {
			return nil
		}
		return e.S.Eq(x, y)
	case *StructV:
		y, ok := b.(*StructV)
		if !ok {
			return nil
		}
		r := e.S.True
		for i := range x.F {
			q := e.valueEq(x.F[i], y.F[i])
			if q == nil {
				return nil
			}
			r = e.S.And(r, q)
		}
		return r
	case *ArrayV:
		y, ok := b.(*ArrayV)
		if !ok {
			return nil
		}
		r := e.S.True
		for i := range x.E {
			q := e.valueEq(x.E[i], y.E[i])
			if q == nil {
				return nil
			}
			r = e.S.And(r, q)
		}
		return r
	case *PtrV:
		y, ok := b.(*PtrV)
		if !ok {
			return nil
		}
		return e.ptrEq(x, y)
	case *MapV:
		y, ok := b.(*MapV)
		if !ok {
			return nil
		}
		return e.ptrEq(x.Ref, y.Ref)
	case *SliceV:
		y, ok := b.(*SliceV)
		if !ok {
			return nil
		}
		if x.IsStr && y.IsStr {
			return e.stringEq(x, y)
		}
		// slices compare only against nil
		if isNilSlice(y) {
			return e.sliceIsNil(x)
		}
		if isNilSlice(x) {
			return e.sliceIsNil(y)
		}
		return nil
	case *IfaceV:
		y, ok := b.(*IfaceV)
		if !ok {
			return nil
		}
		return e.ifaceEq(x, y)
	case *FuncV:
		y, ok := b.(*FuncV)
		if !ok {
			return nil
		}
		// only comparison with nil is legal Go
		if len(y.Alts) == 1 && y.Alts[0].Fn == nil {
			return e.funcIsNil(x)
		}
		if len(x.Alts) == 1 && x.Alts[0].Fn == nil {
			return e.funcIsNil(y)
		}
		return nil
	}
	return nil
}

func isNilSlice(s *SliceV) bool {
	return len(s.Base.Alts) == 1 && s.Base.Alts[0].Obj == 0
}

func (e *Engine) sliceIsNil(s *SliceV) *T {
	r := e.S.False
	for _, a := range s.Base.Alts {
		if a.Obj == 0 {
			r = e.S.Or(r, a.G)
		}
	}
	return r
}

func (e *Engine) funcIsNil(f *FuncV) *T {
	r := e.S.False
	for _, a := range f.Alts {
		if a.Fn == nil {
			r = e.S.Or(r, a.G)
		}
	}
	return r
}

func (e *Engine) ptrIsNil(p *PtrV) *T {
	r := e.S.False
	for _, a := range p.Alts {
		if a.Obj == 0 {
			r = e.S.Or(r, a.G)
		}
	}
	return r
}

func (e *Engine) ptrEq(x, y *PtrV) *T {
	r := e.S.False
	for _, a := range x.Alts {
		for _, b := range y.Alts {
			if a.Obj != b.Obj || !sameShape(a.Path, b.Path) {
				continue
			}
			c := e.S.And(a.G, b.G)
			for k := range a.Path {
				if a.Path[k].Idx != nil {
					c = e.S.And(c, e.S.Eq(a.Path[k].Idx, b.Path[k].Idx))
				}
			}
			r = e.S.Or(r, c)
		}
	}
	return r
}

func (e *Engine) ifaceEq(x, y *IfaceV) *T {
	r := e.S.False
	for _, a := range x.Alts {
		for _, b := range y.Alts {
			if a.T == nil && b.T == nil {
				r = e.S.Or(r, e.S.And(a.G, b.G))
				continue
			}
			if a.T == nil || b.T == nil || !types.Identical(a.T, b.T) {
				continue
			}
			q := e.valueEq(a.V, b.V)
			if q == nil {
				e.unsupported("interface comparison of " + a.T.String())
			}
			r = e.S.Or(r, e.S.AndN(a.G, b.G, q))
		}
	}
	return r
}

func (e *Engine) ifaceIsNil(x *IfaceV) *T {
	r := e.S.False
	for _, a := range x.Alts {
		if a.T == nil {
			r = e.S.Or(r, a.G)
		}
	}
	return r
}
