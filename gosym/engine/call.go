package engine

import (
	"fmt"
	"go/types"
	"strings"

	"golang.org/x/tools/go/ssa"
)

func pack(vals []Value) Value {
	switch len(vals) {
	case 0:
		return nil
	case 1:
		return vals[0]
	}
	return &TupleV{V: vals}
}

func (e *Engine) execCall(st *St, c *ssa.CallCommon) Value {
	args := make([]Value, 0, len(c.Args)+1)
	if c.IsInvoke() {
		recv := e.val(st, c.Value).(*IfaceV)
		for _, a := range c.Args {
			args = append(args, e.val(st, a))
		}
		return e.invoke(st, recv, c.Method, args, c)
	}
	for _, a := range c.Args {
		args = append(args, e.val(st, a))
	}
	switch f := c.Value.(type) {
	case *ssa.Builtin:
		return e.builtin(st, f.Name(), args, c)
	case *ssa.Function:
		return e.callStatic(st, f, args, nil, c)
	}
	fv := e.val(st, c.Value).(*FuncV)
	return e.callFuncV(st, fv, args, c)
}

type branchRes struct {
	st  *St
	val Value
}

// mergeBranches folds alternative continuations back into st.
func (e *Engine) mergeBranches(st *St, brs []branchRes, resType types.Type) Value {
	var acc *St
	var val Value
	for _, b := range brs {
		if b.st.pc.IsFalse() {
			continue
		}
		if acc == nil {
			acc, val = b.st, b.val
			continue
		}
		g := e.selector(b.st.pc, acc.pc)
		if val != nil || b.val != nil {
			val = e.Merge(g, b.val, val)
		}
		acc = &St{pc: e.S.Or(b.st.pc, acc.pc), heap: e.mergeHeaps(g, b.st.heap, acc.heap)}
		e.Merges++
	}
	if acc == nil {
		st.pc = e.S.False
		if resType != nil {
			if tup, ok := resType.(*types.Tuple); ok && tup.Len() == 0 {
				return nil
			}
			return e.Zero(resType)
		}
		return nil
	}
	st.pc, st.heap = acc.pc, acc.heap
	e.cur = st
	return val
}

func resultType(sig *types.Signature) types.Type {
	r := sig.Results()
	if r.Len() == 1 {
		return r.At(0).Type()
	}
	return r
}

func (e *Engine) invoke(st *St, recv *IfaceV, m *types.Func, args []Value, c *ssa.CallCommon) Value {
	var brs []branchRes
	single := len(recv.Alts) == 1
	for _, a := range recv.Alts {
		if a.T == nil {
			e.panicIf(st, a.G, "nil pointer dereference (method call on nil interface "+m.Name()+")")
			continue
		}
	}
	for _, a := range recv.Alts {
		if a.T == nil {
			continue
		}
		g := e.S.And(st.pc, a.G)
		if g.IsFalse() {
			continue
		}
		if a.T == e.opaqueErrType() && m.Name() == "Error" {
			// the engine's stand-in for errors built by the fmt.Errorf stub
			if single {
				return e.constString("<error>")
			}
			brs = append(brs, branchRes{&St{pc: g, heap: st.heap.child()}, e.constString("<error>")})
			continue
		}
		fn := e.Prog.LookupMethod(a.T, m.Pkg(), m.Name())
		if fn == nil {
			e.unsupported("no method " + m.Name() + " on " + a.T.String())
		}
		full := append([]Value{a.V}, args...)
		if single {
			return e.callStatic(st, fn, full, nil, c)
		}
		sub := &St{pc: g, heap: st.heap.child()}
		e.splits++
		v := e.callStatic(sub, fn, full, nil, c)
		brs = append(brs, branchRes{sub, v})
	}
	return e.mergeBranches(st, brs, resultType(m.Type().(*types.Signature)))
}

func (e *Engine) callFuncV(st *St, fv *FuncV, args []Value, c *ssa.CallCommon) Value {
	for _, a := range fv.Alts {
		if a.Fn == nil {
			e.panicIf(st, a.G, "call of nil function")
		}
	}
	var live []FuncAlt
	for _, a := range fv.Alts {
		if a.Fn != nil && !e.S.And(st.pc, a.G).IsFalse() {
			live = append(live, a)
		}
	}
	if len(live) == 1 {
		return e.callStatic(st, live[0].Fn, args, live[0].Bind, c)
	}
	var brs []branchRes
	var sig *types.Signature
	for _, a := range live {
		sub := &St{pc: e.S.And(st.pc, a.G), heap: st.heap.child()}
		e.splits++
		v := e.callStatic(sub, a.Fn, args, a.Bind, c)
		brs = append(brs, branchRes{sub, v})
		sig = a.Fn.Signature
	}
	var rt types.Type
	if sig != nil {
		rt = resultType(sig)
	}
	return e.mergeBranches(st, brs, rt)
}

func (e *Engine) callStatic(st *St, fn *ssa.Function, args []Value, bind []Value, c *ssa.CallCommon) Value {
	name := fn.String()
	if h, ok := e.Cfg.Intrinsics[name]; ok {
		if v, done := h(e, st, args, c); done {
			e.Stubs[name]++
			return v
		}
	}
	if e.Cfg.ConcreteFmt {
		if h, ok := concreteFmtIntrinsics[name]; ok {
			if v, done := h(e, st, args, fn); done {
				return v
			}
		}
	}
	if h, ok := builtinIntrinsics[name]; ok {
		e.Stubs[name]++
		return h(e, st, args, fn)
	}
	short := fn.Name()
	if strings.HasPrefix(short, "verif") {
		if h, ok := verifIntrinsics[short]; ok {
			return h(e, st, args, fn)
		}
	}
	if e.Cfg.SkipInitFuncs != nil && strings.HasPrefix(short, "init#") && fn.Pkg != nil && e.Cfg.SkipInitFuncs(fn.Pkg.Pkg.Path()) {
		return nil
	}
	if fn.Blocks == nil {
		// synthesized wrappers/bound methods are built lazily by go/ssa; external bodies are not available
		e.unsupported("function without body: " + name)
	}
	if fn.Synthetic == "package initializer" && fn.Pkg != nil && len(e.stack) > 0 {
		// dependencies are initialised lazily on first access to one of their globals
		e.ensureInit(fn.Pkg)
		return nil
	}
	return pack(e.CallFunc(st, fn, args, bind))
}

// ---- builtins ---------------------------------------------------------------------

func (e *Engine) builtin(st *St, name string, args []Value, c *ssa.CallCommon) Value {
	switch name {
	case "len":
		switch x := args[0].(type) {
		case *SliceV:
			return x.Len
		case *MapV:
			return e.mapLen(st, x)
		case *ArrayV:
			return e.c64(int64(len(x.E)))
		case *PtrV:
			n := c.Args[0].Type().Underlying().(*types.Pointer).Elem().Underlying().(*types.Array).Len()
			return e.c64(n)
		}
	case "cap":
		switch x := args[0].(type) {
		case *SliceV:
			return x.Cap
		case *ArrayV:
			return e.c64(int64(len(x.E)))
		}
	case "append":
		return e.appendOp(st, args[0].(*SliceV), args[1].(*SliceV), c.Args[0].Type().Underlying().(*types.Slice).Elem())
	case "copy":
		return e.copyOp(st, args[0].(*SliceV), args[1].(*SliceV))
	case "print", "println":
		return nil
	case "ssa:wrapnilchk":
		p := args[0].(*PtrV)
		e.panicIf(st, e.ptrIsNil(p), "value method called through nil pointer")
		return p
	case "delete":
		e.mapDelete(st, args[0].(*MapV), args[1])
		return nil
	case "min", "max":
		_, signed, _ := intInfo(c.Args[0].Type())
		r := args[0].(*T)
		for _, a := range args[1:] {
			y := a.(*T)
			var lt *T
			if signed {
				lt = e.S.SLt(y, r)
			} else {
				lt = e.S.ULt(y, r)
			}
			if name == "max" {
				lt = e.S.Not(e.S.Or(lt, e.S.Eq(y, r)))
			}
			r = e.S.Ite(lt, y, r)
		}
		return r
	case "recover":
		if u := e.panicking; u != nil {
			e.panicking = nil
			if iv, ok := u.val.(*IfaceV); ok {
				return iv
			}
			return e.constStringIface(u.msg)
		}
		return &IfaceV{Alts: []IfaceAlt{{G: e.S.True}}}
	}
	e.unsupported("builtin " + name)
	return nil
}

// storeCond stores v through p only when cond holds.
func (e *Engine) storeCond(st *St, p *PtrV, v Value, cond *T) {
	if cond.IsTrue() {
		e.Store(st, p, v, "store")
		return
	}
	q := &PtrV{Alts: make([]PtrAlt, 0, len(p.Alts))}
	for _, a := range p.Alts {
		if a.Obj == 0 {
			continue
		}
		a.G = e.S.And(a.G, cond)
		q.Alts = append(q.Alts, a)
	}
	e.Store(st, q, v, "store")
}

func (e *Engine) appendOp(st *St, s, t *SliceV, elem types.Type) Value {
	S := e.S
	nt := e.maxLen(st, t)
	if nt == 0 {
		return s
	}
	// read the appended values first
	vals := make([]Value, nt)
	for j := 0; j < nt; j++ {
		vals[j] = e.LoadIf(st, e.elemPtr(t, e.c64(int64(j))), S.SLt(e.c64(int64(j)), t.Len), "append source")
		if vals[j] == nil {
			vals[j] = e.Zero(elem)
		}
	}
	newLen := S.Add(s.Len, t.Len)
	fits := S.SLe(newLen, s.Cap)
	if !fits.IsConst() && e.booting == 0 {
		// decide the capacity test with the solver where the path condition settles it
		if !e.feasible(S.And(st.pc, S.Not(fits))) {
			fits = S.True
		} else if !e.feasible(S.And(st.pc, fits)) {
			fits = S.False
		}
	}
	var inPlace, grown *SliceV
	if !fits.IsFalse() {
		for j := 0; j < nt; j++ {
			cj := e.c64(int64(j))
			cond := S.And(fits, S.SLt(cj, t.Len))
			e.storeCond(st, e.elemPtr(s, S.Add(s.Len, cj)), vals[j], cond)
		}
		inPlace = &SliceV{Base: s.Base, Off: s.Off, Len: newLen, Cap: s.Cap}
	}
	if !fits.IsTrue() {
		ns := e.maxLen(st, s)
		ncap := 2 * ns
		if ncap < ns+nt {
			ncap = ns + nt
		}
		if ncap < 4 {
			ncap = 4
		}
		z := e.Zero(elem)
		cells := make([]Value, ncap)
		for k := range cells {
			cells[k] = z
		}
		for k := 0; k < ns; k++ {
			ck := e.c64(int64(k))
			in := S.SLt(ck, s.Len)
			if in.IsFalse() {
				break
			}
			v := e.LoadIf(st, e.elemPtr(s, ck), in, "append copy")
			if v != nil {
				cells[k] = e.Merge(in, v, z)
			}
		}
		id := e.newObj(st.heap, &ArrayV{E: cells})
		grown = &SliceV{Base: e.ptrTo(id), Off: e.c64(0), Len: newLen, Cap: e.c64(int64(ncap))}
		for j := 0; j < nt; j++ {
			cj := e.c64(int64(j))
			e.storeCond(st, e.elemPtr(grown, S.Add(s.Len, cj)), vals[j], S.SLt(cj, t.Len))
		}
	}
	if grown == nil {
		return inPlace
	}
	if inPlace == nil {
		return grown
	}
	return e.Merge(fits, inPlace, grown)
}

func (e *Engine) copyOp(st *St, dst, src *SliceV) Value {
	S := e.S
	n := S.Ite(S.SLt(src.Len, dst.Len), src.Len, dst.Len)
	m := e.maxLen(st, src)
	if d := e.maxLen(st, dst); d < m {
		m = d
	}
	vals := make([]Value, m)
	for j := 0; j < m; j++ {
		cj := e.c64(int64(j))
		if S.SLt(cj, n).IsFalse() {
			m = j
			break
		}
		vals[j] = e.LoadIf(st, e.elemPtr(src, cj), S.SLt(cj, n), "copy source")
	}
	for j := 0; j < m; j++ {
		cj := e.c64(int64(j))
		if vals[j] == nil {
			continue
		}
		e.storeCond(st, e.elemPtr(dst, cj), vals[j], S.SLt(cj, n))
	}
	return n
}

// ---- maps ---------------------------------------------------------------------------

func (e *Engine) mapContent(st *St, m *MapV) (*MapC, ObjID) {
	if len(m.Ref.Alts) != 1 {
		e.unsupported("map reference with several alternatives")
	}
	a := m.Ref.Alts[0]
	if a.Obj == 0 {
		return &MapC{}, 0
	}
	return e.heapGet(st.heap, a.Obj).(*MapC), a.Obj
}

func (e *Engine) keyEq(a, b Value) *T {
	q := e.valueEq(a, b)
	if q == nil {
		e.unsupported(fmt.Sprintf("map key comparison of %T", a))
	}
	return q
}

func (e *Engine) mapLookup(st *St, m *MapV, k Value, elem types.Type) (Value, *T) {
	var res Value = e.Zero(elem)
	present := e.S.False
	for ai := len(m.Ref.Alts) - 1; ai >= 0; ai-- {
		a := m.Ref.Alts[ai]
		if a.Obj == 0 || e.S.And(st.pc, a.G).IsFalse() {
			continue
		}
		mc := e.heapGet(st.heap, a.Obj).(*MapC)
		var r Value = e.Zero(elem)
		pr := e.S.False
		for i := len(mc.E) - 1; i >= 0; i-- {
			en := mc.E[i]
			c := e.S.And(en.P, e.keyEq(k, en.K))
			if c.IsFalse() {
				continue
			}
			r = e.Merge(c, en.V, r)
			pr = e.S.Or(pr, c)
		}
		if len(m.Ref.Alts) == 1 {
			return r, pr
		}
		res = e.Merge(a.G, r, res)
		present = e.S.Ite(a.G, pr, present)
	}
	return res, present
}

func (e *Engine) mapUpdate(st *St, m *MapV, k, v Value) {
	mc, id := e.mapContent(st, m)
	if id == 0 {
		e.panicIf(st, e.S.True, "assignment to entry in nil map")
		return
	}
	e.noteWrite(st, id, e.S.True)
	out := &MapC{E: make([]MapEntry, 0, len(mc.E)+1)}
	found := e.S.False
	for _, en := range mc.E {
		c := e.S.And(en.P, e.keyEq(k, en.K))
		if !c.IsFalse() {
			en.V = e.Merge(c, v, en.V)
			found = e.S.Or(found, c)
		}
		out.E = append(out.E, en)
	}
	if !found.IsTrue() {
		out.E = append(out.E, MapEntry{K: k, V: v, P: e.S.Not(found)})
	}
	st.heap.set(id, out)
}

func (e *Engine) mapDelete(st *St, m *MapV, k Value) {
	mc, id := e.mapContent(st, m)
	if id == 0 {
		return
	}
	e.noteWrite(st, id, e.S.True)
	out := &MapC{E: make([]MapEntry, 0, len(mc.E))}
	for _, en := range mc.E {
		c := e.keyEq(k, en.K)
		en.P = e.S.And(en.P, e.S.Not(c))
		if !en.P.IsFalse() {
			out.E = append(out.E, en)
		}
	}
	st.heap.set(id, out)
}

func (e *Engine) mapLen(st *St, m *MapV) *T {
	mc, _ := e.mapContent(st, m)
	n := e.c64(0)
	for _, en := range mc.E {
		n = e.S.Add(n, e.S.BoolToBV(en.P, 64))
	}
	return n
}

// ---- range ---------------------------------------------------------------------------

// IterV is an iterator created by Range; its position lives in a heap object.
type IterV struct {
	Str  *SliceV
	Map  *MapC
	Perm []int // visiting order for maps
	Pos  ObjID
}

func (e *Engine) rangeStart(st *St, x *ssa.Range) Value {
	pos := e.newObj(st.heap, e.c64(0))
	switch v := e.val(st, x.X).(type) {
	case *SliceV:
		return &IterV{Str: v, Pos: pos}
	case *MapV:
		mc, _ := e.mapContent(st, v)
		it := &IterV{Map: mc, Pos: pos}
		if e.MapOrder != nil {
			it.Perm = e.MapOrder(len(mc.E))
		}
		if e.Cfg.SymbolicMapOrder && e.booting == 0 && len(mc.E) >= 2 {
			it.Map = e.permutedEntries(st, mc)
		}
		return it
	}
	e.unsupported("range over " + x.X.Type().String())
	return nil
}

func (e *Engine) rangeNext(st *St, x *ssa.Next) Value {
	it := e.val(st, x.Iter).(*IterV)
	S := e.S
	pos := e.heapGet(st.heap, it.Pos).(*T)
	if x.IsString {
		s := it.Str
		ok := S.SLt(pos, s.Len)
		// decode with the real utf8.DecodeRuneInString
		dec := e.findFunc("unicode/utf8", "DecodeRuneInString")
		if dec == nil {
			e.unsupported("range over string needs unicode/utf8 in the program")
		}
		sub := &SliceV{Base: s.Base, Off: S.Add(s.Off, pos), Len: S.Ite(ok, S.Sub(s.Len, pos), e.c64(0)), IsStr: true}
		res := e.CallFunc(st, dec, []Value{sub}, nil)
		r, size := res[0].(*T), res[1].(*T)
		st.heap.set(it.Pos, S.Ite(ok, S.Add(pos, size), pos))
		return &TupleV{V: []Value{ok, pos, r}}
	}
	// map: entries in Perm order; position is concrete when the loop is unrolled pass by pass
	tup := x.Type().(*types.Tuple)
	kz, vz := e.Zero(tup.At(1).Type()), e.Zero(tup.At(2).Type())
	n := len(it.Map.E)
	if !pos.IsConst() {
		e.unsupported("map iterator with symbolic position")
	}
	p := int(pos.Int())
	// find the first present entry at or after p
	ok := S.False
	var k, v Value
	npos := e.c64(int64(n))
	for i := n - 1; i >= p; i-- {
		idx := i
		if it.Perm != nil {
			idx = it.Perm[i]
		}
		en := it.Map.E[idx]
		if en.P.IsFalse() {
			continue
		}
		if k == nil {
			k, v = en.K, en.V
		} else {
			k = e.Merge(en.P, en.K, k)
			v = e.Merge(en.P, en.V, v)
		}
		npos = S.Ite(en.P, e.c64(int64(i+1)), npos)
		ok = S.Or(ok, en.P)
	}
	if !npos.IsConst() {
		e.unsupported("map iteration over entries with symbolic presence")
	}
	st.heap.set(it.Pos, npos)
	if k == nil {
		k, v = kz, vz
	}
	return &TupleV{V: []Value{ok, k, v}}
}

func (e *Engine) findFunc(pkgPath, name string) *ssa.Function {
	for _, p := range e.Prog.AllPackages() {
		if p.Pkg.Path() == pkgPath {
			return p.Func(name)
		}
	}
	return nil
}

// FindMethod returns the method of a named type (pointer receiver if ptr).
func (e *Engine) FindMethod(pkgPath, typeName, method string, ptr bool) *ssa.Function {
	for _, p := range e.Prog.AllPackages() {
		if p.Pkg.Path() != pkgPath {
			continue
		}
		tn := p.Type(typeName)
		if tn == nil {
			return nil
		}
		var t types.Type = tn.Type()
		if ptr {
			t = types.NewPointer(t)
		}
		return e.Prog.LookupMethod(t, p.Pkg, method)
	}
	return nil
}

func (e *Engine) FindFunc(pkgPath, name string) *ssa.Function { return e.findFunc(pkgPath, name) }

// permutedEntries models Go's unspecified map iteration order: the visiting order is an
// arbitrary permutation selected by a fresh symbolic index (one per range statement executed).
func (e *Engine) permutedEntries(st *St, mc *MapC) *MapC {
	n := len(mc.E)
	if n > 4 {
		e.unsupported("symbolic map order over more than 4 entries")
	}
	for _, en := range mc.E {
		if !en.P.IsTrue() {
			e.unsupported(fmt.Sprintf("symbolic map order over a map with symbolic presence (%d entries, presence %s)", len(mc.E), en.P))
		}
	}
	var perms [][]int
	var gen func(cur []int, used []bool)
	gen = func(cur []int, used []bool) {
		if len(cur) == n {
			perms = append(perms, append([]int{}, cur...))
			return
		}
		for i := 0; i < n; i++ {
			if !used[i] {
				used[i] = true
				gen(append(cur, i), used)
				used[i] = false
			}
		}
	}
	gen(nil, make([]bool, n))
	p := e.Fresh("maporder", 64, true)
	st.pc = e.S.And(st.pc, e.S.And(e.S.SLe(e.c64(0), p), e.S.SLt(p, e.c64(int64(len(perms))))))
	out := &MapC{E: make([]MapEntry, n)}
	for i := 0; i < n; i++ {
		var k, v Value
		for c := len(perms) - 1; c >= 0; c-- {
			en := mc.E[perms[c][i]]
			if k == nil {
				k, v = en.K, en.V
				continue
			}
			cond := e.S.Eq(p, e.c64(int64(c)))
			k = e.Merge(cond, en.K, k)
			v = e.Merge(cond, en.V, v)
		}
		out.E[i] = MapEntry{K: k, V: v, P: e.S.True}
	}
	return out
}
