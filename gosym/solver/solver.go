// Package solver runs SMT queries on the installed solvers.
package solver

import (
	"bufio"
	"bytes"
	"context"
	"fmt"
	"io"
	"os"
	"os/exec"
	"regexp"
	"strconv"
	"strings"
	"sync"
	"time"

	"verif/gosym/term"
)

type Result struct {
	Status  string // sat, unsat, unknown, error, timeout
	Model   map[string]uint64
	Seconds float64
	Solver  string
	Raw     string
}

type Backend struct {
	Name string
	Argv func(file string, timeoutS int) []string
}

var Z3 = Backend{"z3-4.8.12", func(f string, t int) []string {
	return []string{"z3", "-smt2", fmt.Sprintf("-T:%d", t), f}
}}
var Z3New = Backend{"z3-5.1.0", func(f string, t int) []string {
	return []string{"z3-new", "-smt2", fmt.Sprintf("-T:%d", t), f}
}}
var CVC5 = Backend{"cvc5-1.0", func(f string, t int) []string {
	return []string{"cvc5", "--lang=smt2", "--bitblast=eager", "--produce-models", fmt.Sprintf("--tlimit=%d", t*1000), f}
}}

func BackendByName(n string) Backend {
	switch n {
	case "z3-new":
		return Z3New
	case "cvc5":
		return CVC5
	case "z3":
		return Z3
	case "portfolio":
		return Portfolio
	}
	return Z3New
}

var valRe = regexp.MustCompile(`\(\s*(\|[^|]*\||[^\s()]+)\s+(#x[0-9a-fA-F]+|#b[01]+|true|false)\s*\)`)

func parseModel(out string) map[string]uint64 {
	m := map[string]uint64{}
	for _, mm := range valRe.FindAllStringSubmatch(out, -1) {
		name := strings.Trim(mm[1], "|")
		v := mm[2]
		var x uint64
		switch {
		case v == "true":
			x = 1
		case v == "false":
			x = 0
		case strings.HasPrefix(v, "#x"):
			x, _ = strconv.ParseUint(v[2:], 16, 64)
		case strings.HasPrefix(v, "#b"):
			x, _ = strconv.ParseUint(v[2:], 2, 64)
		}
		m[name] = x
	}
	return m
}

// Check decides the conjunction of asserts with a one-shot solver process.
func Check(be Backend, dir, name string, asserts []*term.Term, timeoutS int, wantModel bool) Result {
	file := fmt.Sprintf("%s/%s.smt2", dir, name)
	f, err := os.Create(file)
	if err != nil {
		return Result{Status: "error", Raw: err.Error(), Solver: be.Name}
	}
	if err := term.WriteQuery(f, "QF_BV", asserts, false); err != nil {
		f.Close()
		return Result{Status: "error", Raw: err.Error(), Solver: be.Name}
	}
	f.Close()
	res := RunFile(be, file, timeoutS)
	if res.Status == "sat" && wantModel {
		mfile := fmt.Sprintf("%s/%s.model.smt2", dir, name)
		f, err := os.Create(mfile)
		if err != nil {
			return Result{Status: "error", Raw: err.Error(), Solver: be.Name}
		}
		term.WriteQuery(f, "QF_BV", asserts, true)
		f.Close()
		r2 := RunFile(be, mfile, timeoutS)
		r2.Seconds += res.Seconds
		return r2
	}
	return res
}

// Portfolio is a pseudo backend: all installed solvers race, the first conclusive answer wins.
var Portfolio = Backend{Name: "portfolio(z3-5.1.0,z3-4.8.12,cvc5-1.0)"}

func runPortfolio(file string, timeoutS int) Result {
	ctx, cancel := context.WithCancel(context.Background())
	defer cancel()
	bes := []Backend{Z3New, Z3, CVC5}
	ch := make(chan Result, len(bes))
	for _, be := range bes {
		go func(be Backend) { ch <- runFileCtx(ctx, be, file, timeoutS) }(be)
	}
	var last Result
	for range bes {
		r := <-ch
		if r.Status == "sat" || r.Status == "unsat" {
			return r
		}
		if last.Status == "" || r.Status == "error" {
			last = r
		}
	}
	return last
}

// RunFile runs a backend on an existing SMT-LIB file.
func RunFile(be Backend, file string, timeoutS int) Result {
	if be.Argv == nil {
		return runPortfolio(file, timeoutS)
	}
	return runFileCtx(context.Background(), be, file, timeoutS)
}

func runFileCtx(parent context.Context, be Backend, file string, timeoutS int) Result {
	t0 := time.Now()
	ctx, cancel := context.WithTimeout(parent, time.Duration(timeoutS+5)*time.Second)
	defer cancel()
	argv := be.Argv(file, timeoutS)
	cmd := exec.CommandContext(ctx, argv[0], argv[1:]...)
	var out bytes.Buffer
	cmd.Stdout = &out
	cmd.Stderr = &out
	cmd.Run()
	res := Result{Solver: be.Name, Seconds: time.Since(t0).Seconds(), Raw: out.String()}
	s := out.String()
	first := strings.TrimSpace(strings.SplitN(s, "\n", 2)[0])
	switch {
	case strings.Contains(s, "(error"):
		res.Status = "error"
	case first == "sat":
		res.Status = "sat"
		res.Model = parseModel(s)
	case first == "unsat":
		res.Status = "unsat"
	case first == "timeout" || ctx.Err() != nil:
		res.Status = "timeout"
	default:
		res.Status = "unknown"
	}
	if len(res.Raw) > 4000 && res.Status != "error" {
		res.Raw = ""
	}
	return res
}

// Session answers cheap feasibility questions. Incremental (push/pop) mode turned out to be
// much slower than one-shot runs for these formulas (z3 skips its QF_BV preprocessing there and
// ignores the soft timeout), so each call is a one-shot process with a hard 2 s limit;
// anything but a clean "unsat" counts as feasible.
type Session struct {
	mu     sync.Mutex
	dir    string
	n      int
	Calls  int
	Hits   int // answered from the model cache
	Secs   float64
	Limit  int
	models []map[string]uint64
	// Incremental: use one long-lived z3 process (only sensible for the simple path
	// conditions of fork mode); falls back to one-shot runs when it does not answer.
	Incremental bool
	inc         *incProc
	IncCalls    int
}

type incProc struct {
	cmd  *exec.Cmd
	in   io.WriteCloser
	out  *bufio.Reader
	p    *term.Printer
	buf  *bytes.Buffer
	dead bool
}

func startInc() *incProc {
	cmd := exec.Command("z3-new", "-in", "-smt2")
	in, err := cmd.StdinPipe()
	if err != nil {
		return nil
	}
	outp, err := cmd.StdoutPipe()
	if err != nil {
		return nil
	}
	if err := cmd.Start(); err != nil {
		return nil
	}
	ip := &incProc{cmd: cmd, in: in, out: bufio.NewReader(outp), buf: &bytes.Buffer{}}
	ip.p = term.NewPrinter(ip.buf)
	io.WriteString(in, "(set-option :produce-models true)\n(set-option :timeout 1500)\n(set-logic QF_BV)\n")
	return ip
}

// readSexp reads one line, or a balanced parenthesised expression spanning lines.
func (ip *incProc) readSexp() (string, error) {
	var b strings.Builder
	depth := 0
	for {
		line, err := ip.out.ReadString('\n')
		if err != nil {
			return b.String(), err
		}
		b.WriteString(line)
		inBar := false
		for _, ch := range line {
			switch {
			case ch == '|':
				inBar = !inBar
			case inBar:
			case ch == '(':
				depth++
			case ch == ')':
				depth--
			}
		}
		if depth <= 0 {
			return b.String(), nil
		}
	}
}

func (ip *incProc) check(ts []*term.Term) (string, map[string]uint64) {
	refs := make([]string, len(ts))
	for i, t := range ts {
		refs[i] = ip.p.Define(t)
	}
	ip.p.Raw("(push 1)\n")
	for _, r := range refs {
		ip.p.Raw("(assert " + r + ")\n")
	}
	ip.p.Raw("(check-sat)\n")
	ip.p.Flush()
	if _, err := ip.in.Write(ip.buf.Bytes()); err != nil {
		ip.dead = true
		return "unknown", nil
	}
	ip.buf.Reset()
	line, err := ip.readSexp()
	if err != nil {
		ip.dead = true
		return "unknown", nil
	}
	st := strings.TrimSpace(line)
	var model map[string]uint64
	if st == "sat" {
		names := ip.p.VarNames()
		if len(names) > 0 {
			var q strings.Builder
			q.WriteString("(get-value (")
			for _, n := range names {
				q.WriteString(term.SymName(n) + " ")
			}
			q.WriteString("))\n")
			if _, err := io.WriteString(ip.in, q.String()); err != nil {
				ip.dead = true
				return "unknown", nil
			}
			vals, err := ip.readSexp()
			if err != nil {
				ip.dead = true
				return "unknown", nil
			}
			model = parseModel(vals)
		} else {
			model = map[string]uint64{}
		}
	}
	if _, err := io.WriteString(ip.in, "(pop 1)\n"); err != nil {
		ip.dead = true
	}
	if st != "sat" && st != "unsat" {
		if strings.HasPrefix(st, "(error") {
			ip.dead = true
		}
		return "unknown", nil
	}
	return st, model
}

func NewSession() (*Session, error) {
	d, err := os.MkdirTemp("", "gvfeas")
	if err != nil {
		return nil, err
	}
	return &Session{dir: d, Limit: 2}, nil
}

func NewSessionMust() *Session {
	s, err := NewSession()
	if err != nil {
		panic(err)
	}
	return s
}

// Feasible answers "sat", "unsat" or "unknown" for the conjunction of ts.
func (s *Session) Feasible(ts ...*term.Term) string {
	s.mu.Lock()
	defer s.mu.Unlock()
	// counterexample cache: a model of an earlier query often satisfies this one
	for i := len(s.models) - 1; i >= 0; i-- {
		memo := map[*term.Term]uint64{}
		ok := true
		for _, t := range ts {
			if term.Eval(t, s.models[i], memo) == 0 {
				ok = false
				break
			}
		}
		if ok {
			s.Hits++
			if i != len(s.models)-1 { // move to front
				m := s.models[i]
				copy(s.models[i:], s.models[i+1:])
				s.models[len(s.models)-1] = m
			}
			return "sat"
		}
	}
	if s.Incremental {
		if s.inc == nil {
			s.inc = startInc()
		}
		if s.inc != nil && !s.inc.dead {
			t0 := time.Now()
			st, model := s.inc.check(ts)
			s.IncCalls++
			s.Secs += time.Since(t0).Seconds()
			if st == "sat" {
				if model != nil {
					s.models = append(s.models, model)
					if len(s.models) > 48 {
						s.models = s.models[1:]
					}
				}
				return "sat"
			}
			if st == "unsat" {
				return "unsat"
			}
			if s.inc.dead {
				s.inc.in.Close()
				s.inc.cmd.Process.Kill()
				s.inc.cmd.Wait()
				s.inc = nil
			}
		}
	}
	s.n++
	r := checkWithModel(Z3New, s.dir, fmt.Sprintf("f%d", s.n%4), ts, s.Limit)
	s.Calls++
	s.Secs += r.Seconds
	switch r.Status {
	case "sat":
		if r.Model != nil {
			s.models = append(s.models, r.Model)
			if len(s.models) > 48 {
				s.models = s.models[1:]
			}
		}
		return "sat"
	case "unsat":
		return "unsat"
	}
	return "unknown"
}

func (s *Session) Close() {
	if s == nil {
		return
	}
	if s.inc != nil {
		s.inc.in.Close()
		s.inc.cmd.Process.Kill()
		s.inc.cmd.Wait()
	}
	os.RemoveAll(s.dir)
}

// checkWithModel is a single run that asks for the model right away; the error line a solver
// prints for get-value after "unsat" is expected and ignored (only here, for feasibility).
func checkWithModel(be Backend, dir, name string, asserts []*term.Term, timeoutS int) Result {
	file := fmt.Sprintf("%s/%s.smt2", dir, name)
	f, err := os.Create(file)
	if err != nil {
		return Result{Status: "error", Raw: err.Error(), Solver: be.Name}
	}
	term.WriteQuery(f, "QF_BV", asserts, true)
	f.Close()
	r := RunFile(be, file, timeoutS)
	if r.Status == "error" {
		first := strings.TrimSpace(strings.SplitN(r.Raw, "\n", 2)[0])
		if first == "unsat" && strings.Count(r.Raw, "(error") == 1 {
			r.Status = "unsat"
		}
	}
	return r
}
