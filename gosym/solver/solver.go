// Package solver runs SMT queries on the installed solvers.
package solver

import (
	"bytes"
	"context"
	"fmt"
	"os"
	"os/exec"
	"regexp"
	"strconv"
	"strings"
	"sync"
	"time"

	"verif/gosym/term"
)

type Result struct {
	Status  string // sat, unsat, unknown, error, timeout
	Model   map[string]uint64
	Seconds float64
	Solver  string
	Raw     string
}

type Backend struct {
	Name string
	Argv func(file string, timeoutS int) []string
}

var Z3 = Backend{"z3-4.8.12", func(f string, t int) []string {
	return []string{"z3", "-smt2", fmt.Sprintf("-T:%d", t), f}
}}
var Z3New = Backend{"z3-5.1.0", func(f string, t int) []string {
	return []string{"z3-new", "-smt2", fmt.Sprintf("-T:%d", t), f}
}}
var CVC5 = Backend{"cvc5-1.0", func(f string, t int) []string {
	return []string{"cvc5", "--lang=smt2", "--bitblast=eager", "--produce-models", fmt.Sprintf("--tlimit=%d", t*1000), f}
}}

func BackendByName(n string) Backend {
	switch n {
	case "z3-new":
		return Z3New
	case "cvc5":
		return CVC5
	case "z3":
		return Z3
	case "portfolio":
		return Portfolio
	}
	return Z3New
}

var valRe = regexp.MustCompile(`\(\s*(\|[^|]*\||[^\s()]+)\s+(#x[0-9a-fA-F]+|#b[01]+|true|false)\s*\)`)

func parseModel(out string) map[string]uint64 {
	m := map[string]uint64{}
	for _, mm := range valRe.FindAllStringSubmatch(out, -1) {
		name := strings.Trim(mm[1], "|")
		v := mm[2]
		var x uint64
		switch {
		case v == "true":
			x = 1
		case v == "false":
			x = 0
		case strings.HasPrefix(v, "#x"):
			x, _ = strconv.ParseUint(v[2:], 16, 64)
		case strings.HasPrefix(v, "#b"):
			x, _ = strconv.ParseUint(v[2:], 2, 64)
		}
		m[name] = x
	}
	return m
}

// Check decides the conjunction of asserts with a one-shot solver process.
func Check(be Backend, dir, name string, asserts []*term.Term, timeoutS int, wantModel bool) Result {
	file := fmt.Sprintf("%s/%s.smt2", dir, name)
	f, err := os.Create(file)
	if err != nil {
		return Result{Status: "error", Raw: err.Error(), Solver: be.Name}
	}
	if err := term.WriteQuery(f, "QF_BV", asserts, false); err != nil {
		f.Close()
		return Result{Status: "error", Raw: err.Error(), Solver: be.Name}
	}
	f.Close()
	res := RunFile(be, file, timeoutS)
	if res.Status == "sat" && wantModel {
		mfile := fmt.Sprintf("%s/%s.model.smt2", dir, name)
		f, err := os.Create(mfile)
		if err != nil {
			return Result{Status: "error", Raw: err.Error(), Solver: be.Name}
		}
		term.WriteQuery(f, "QF_BV", asserts, true)
		f.Close()
		r2 := RunFile(be, mfile, timeoutS)
		r2.Seconds += res.Seconds
		return r2
	}
	return res
}

// Portfolio is a pseudo backend: all installed solvers race, the first conclusive answer wins.
var Portfolio = Backend{Name: "portfolio(z3-5.1.0,z3-4.8.12,cvc5-1.0)"}

func runPortfolio(file string, timeoutS int) Result {
	ctx, cancel := context.WithCancel(context.Background())
	defer cancel()
	bes := []Backend{Z3New, Z3, CVC5}
	ch := make(chan Result, len(bes))
	for _, be := range bes {
		go func(be Backend) { ch <- runFileCtx(ctx, be, file, timeoutS) }(be)
	}
	var last Result
	for range bes {
		r := <-ch
		if r.Status == "sat" || r.Status == "unsat" {
			return r
		}
		if last.Status == "" || r.Status == "error" {
			last = r
		}
	}
	return last
}

// RunFile runs a backend on an existing SMT-LIB file.
func RunFile(be Backend, file string, timeoutS int) Result {
	if be.Argv == nil {
		return runPortfolio(file, timeoutS)
	}
	return runFileCtx(context.Background(), be, file, timeoutS)
}

func runFileCtx(parent context.Context, be Backend, file string, timeoutS int) Result {
	t0 := time.Now()
	ctx, cancel := context.WithTimeout(parent, time.Duration(timeoutS+5)*time.Second)
	defer cancel()
	argv := be.Argv(file, timeoutS)
	cmd := exec.CommandContext(ctx, argv[0], argv[1:]...)
	var out bytes.Buffer
	cmd.Stdout = &out
	cmd.Stderr = &out
	cmd.Run()
	res := Result{Solver: be.Name, Seconds: time.Since(t0).Seconds(), Raw: out.String()}
	s := out.String()
	first := strings.TrimSpace(strings.SplitN(s, "\n", 2)[0])
	switch {
	case strings.Contains(s, "(error"):
		res.Status = "error"
	case first == "sat":
		res.Status = "sat"
		res.Model = parseModel(s)
	case first == "unsat":
		res.Status = "unsat"
	case first == "timeout" || ctx.Err() != nil:
		res.Status = "timeout"
	default:
		res.Status = "unknown"
	}
	if len(res.Raw) > 4000 && res.Status != "error" {
		res.Raw = ""
	}
	return res
}

// Session answers cheap feasibility questions. Incremental (push/pop) mode turned out to be
// much slower than one-shot runs for these formulas (z3 skips its QF_BV preprocessing there and
// ignores the soft timeout), so each call is a one-shot process with a hard 2 s limit;
// anything but a clean "unsat" counts as feasible.
type Session struct {
	mu    sync.Mutex
	dir   string
	n     int
	Calls int
	Secs  float64
	Limit int
}

func NewSession() (*Session, error) {
	d, err := os.MkdirTemp("", "gvfeas")
	if err != nil {
		return nil, err
	}
	return &Session{dir: d, Limit: 2}, nil
}

func NewSessionMust() *Session {
	s, err := NewSession()
	if err != nil {
		panic(err)
	}
	return s
}

// Feasible answers "sat", "unsat" or "unknown" for the conjunction of ts.
func (s *Session) Feasible(ts ...*term.Term) string {
	s.mu.Lock()
	defer s.mu.Unlock()
	s.n++
	r := Check(Z3New, s.dir, fmt.Sprintf("f%d", s.n%4), ts, s.Limit, false)
	s.Calls++
	s.Secs += r.Seconds
	switch r.Status {
	case "sat", "unsat":
		return r.Status
	}
	return "unknown"
}

func (s *Session) Close() {
	if s == nil {
		return
	}
	os.RemoveAll(s.dir)
}
