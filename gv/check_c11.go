package gv

import (
	"fmt"
	"go/types"
	"sort"
	"strings"

	"golang.org/x/tools/go/ssa"

	"verif/gosym/engine"
)

func init() {
	Register("C11", checkC11)
}

// mapRangeSites lists every `range` over a map in gocc's own packages (from SSA), and whether
// a goroutine is ever started.
func mapRangeSites() (sites []string, goStmts []string, err error) {
	prog, _, err := engine.LoadProgram(engine.LoadCfg{Dir: RepoRoot, Patterns: []string{"."}, Env: GoEnv()})
	if err != nil {
		return nil, nil, err
	}
	for _, pkg := range prog.AllPackages() {
		if !strings.HasPrefix(pkg.Pkg.Path(), RepoMod) || strings.Contains(pkg.Pkg.Path(), "/example/") {
			continue
		}
		var fns []*ssa.Function
		for _, m := range pkg.Members {
			if f, ok := m.(*ssa.Function); ok {
				fns = append(fns, f)
				fns = append(fns, f.AnonFuncs...)
			}
			if t, ok := m.(*ssa.Type); ok {
				for _, typ := range []types.Type{t.Type(), types.NewPointer(t.Type())} {
					ms := prog.MethodSets.MethodSet(typ)
					for i := 0; i < ms.Len(); i++ {
						if f := prog.MethodValue(ms.At(i)); f != nil && f.Pkg == pkg {
							fns = append(fns, f)
							fns = append(fns, f.AnonFuncs...)
						}
					}
				}
			}
		}
		seen := map[*ssa.Function]bool{}
		for _, f := range fns {
			if seen[f] || f.Blocks == nil {
				continue
			}
			seen[f] = true
			for _, b := range f.Blocks {
				for _, in := range b.Instrs {
					switch x := in.(type) {
					case *ssa.Range:
						if _, ok := x.X.Type().Underlying().(*types.Map); ok {
							p := prog.Fset.Position(x.Pos())
							sites = append(sites, fmt.Sprintf("%s (%s:%d)", f.String(), shortName(p.Filename), p.Line))
						}
					case *ssa.Go:
						goStmts = append(goStmts, f.String())
					}
				}
			}
		}
	}
	sort.Strings(sites)
	return sites, goStmts, nil
}

func shortName(f string) string {
	if i := strings.LastIndex(f, "/"); i >= 0 {
		return f[i+1:]
	}
	return f
}

func checkC11(c *Ctx) {
	tf := repoTarget("internal/parser/first", "first", "first/c11.go")
	ta := repoTarget("internal/ast", "ast", "astpkg/c11.go")
	var jobs []Job
	masks := [][2]int{{7, 25}, {7, 7}, {3, 24}, {11, 13}, {0, 7}, {8, 9}, {14, 7}}
	if !c.Quick() {
		masks = append(masks, [2]int{19, 21}, [2]int{28, 28}, [2]int{1, 26}, [2]int{13, 11})
	}
	for _, m := range masks {
		jobs = append(jobs, Job{Name: fmt.Sprintf("SymbolSet/FirstSets A=%05b B=%05b", m[0], m[1]), Target: tf,
			Run:          SymRun{Harness: "VerifC11SymbolSet", Params: map[string]int{"MASKA": m[0], "MASKB": m[1]}, LoopBound: 24, SymbolicMapOrder: true, InitExtra: []string{"sort"}},
			ReplayParams: map[string]int{"REPEAT": 200},
			Bounds:       fmt.Sprintf("sets A=%05b, B=%05b over the pool {a,b,c,empty,d}; every range over a map in AddSet/Equal/FirstSets.AddSet visits its entries in an arbitrary, independently chosen order; each function run twice and compared", m[0], m[1])})
	}
	for n := 2; n <= 3; n++ {
		jobs = append(jobs, Job{Name: fmt.Sprintf("LexPart.TokenIds N=%d", n), Target: ta,
			Run:          SymRun{Harness: "VerifC11TokenIds", Params: map[string]int{"N": n}, LoopBound: 24, SymbolicMapOrder: true, InitExtra: []string{"sort"}},
			ReplayParams: map[string]int{"REPEAT": 200},
			Bounds:       fmt.Sprintf("%d token definitions, arbitrary iteration order of the TokDefs map in both runs", n)})
	}
	jobs = append(jobs, consistentJobs()...)
	sites, gos, err := mapRangeSites()
	if err != nil {
		c.Inconclusive = append(c.Inconclusive, "listing map ranges: "+err.Error())
	}
	c.RunJobs(filterJobs(jobs), 3)
	var vetted, unvetted []string
	for _, s := range sites {
		fn := s[:strings.Index(s, " (")]
		if c.Funcs[fn] > 0 {
			vetted = append(vetted, s)
		} else {
			unvetted = append(unvetted, s)
		}
	}
	c.Extra["map_range_sites_vetted_by_a_harness"] = vetted
	c.Extra["map_range_sites_not_vetted"] = unvetted
	c.Extra["go_statements_in_gocc_packages"] = gos
	if len(gos) > 0 {
		c.Notes = append(c.Notes, "gocc starts goroutines: scheduling is outside this kernel-level claim")
	}
	c.BoundsText = append(c.BoundsText, "kernel level only: 2-safety harnesses over functions that iterate maps on the generation path, with every map iteration order symbolic (a fresh permutation index per range statement, <= 4 entries); the run also lists from SSA every range over a map in gocc's packages and which of them a harness executed (evidence keys map_range_sites_*), and every go statement (none = no scheduling nondeterminism)",
		"outside the claim: byte identity of whole runs; map ranges listed as not vetted (several only feed debug/verbose output); hash-seed effects other than iteration order")
	c.Assumptions = append(c.Assumptions, "Go's map iteration nondeterminism = an arbitrary permutation of the entries per range statement")
}
