package gv

import (
	"fmt"
	"go/types"
	"sort"
	"strings"

	"golang.org/x/tools/go/ssa"

	"verif/gosym/engine"
)

func init() {
	Register("C11", checkC11)
}

// mapRangeSites lists every `range` over a map in gocc's own packages (from SSA), and whether
// a goroutine is ever started.
func mapRangeSites() (sites []string, goStmts []string, err error) {
	prog, _, err := engine.LoadProgram(engine.LoadCfg{Dir: RepoRoot, Patterns: []string{"."}, Env: GoEnv()})
	if err != nil {
		return nil, nil, err
	}
	for _, pkg := range prog.AllPackages() {
		if !strings.HasPrefix(pkg.Pkg.Path(), RepoMod) || strings.Contains(pkg.Pkg.Path(), "/example/") {
			continue
		}
		var fns []*ssa.Function
		for _, m := range pkg.Members {
			if f, ok := m.(*ssa.Function); ok {
				fns = append(fns, f)
				fns = append(fns, f.AnonFuncs...)
			}
			if t, ok := m.(*ssa.Type); ok {
				for _, typ := range []types.Type{t.Type(), types.NewPointer(t.Type())} {
					ms := prog.MethodSets.MethodSet(typ)
					for i := 0; i < ms.Len(); i++ {
						if f := prog.MethodValue(ms.At(i)); f != nil && f.Pkg == pkg {
							fns = append(fns, f)
							fns = append(fns, f.AnonFuncs...)
						}
					}
				}
			}
		}
		seen := map[*ssa.Function]bool{}
		for _, f := range fns {
			if seen[f] || f.Blocks == nil {
				continue
			}
			seen[f] = true
			for _, b := range f.Blocks {
				for _, in := range b.Instrs {
					switch x := in.(type) {
					case *ssa.Range:
						if _, ok := x.X.Type().Underlying().(*types.Map); ok {
							p := prog.Fset.Position(x.Pos())
							sites = append(sites, fmt.Sprintf("%s (%s:%d)", f.String(), shortName(p.Filename), p.Line))
						}
					case *ssa.Go:
						goStmts = append(goStmts, f.String())
					}
				}
			}
		}
	}
	sort.Strings(sites)
	return sites, goStmts, nil
}

func shortName(f string) string {
	if i := strings.LastIndex(f, "/"); i >= 0 {
		return f[i+1:]
	}
	return f
}

func checkC11(c *Ctx) {
	tf := repoTarget("internal/parser/first", "first", "first/c11.go")
	ta := repoTarget("internal/ast", "ast", "astpkg/c11.go")
	var jobs []Job
	masks := [][2]int{{7, 25}, {7, 7}, {3, 24}, {11, 13}, {0, 7}, {8, 9}, {14, 7}}
	if !c.Quick() {
		masks = append(masks, [2]int{19, 21}, [2]int{28, 28}, [2]int{1, 26}, [2]int{13, 11})
	}
	for _, m := range masks {
		jobs = append(jobs, Job{Name: fmt.Sprintf("SymbolSet/FirstSets A=%05b B=%05b", m[0], m[1]), Target: tf,
			Run:          SymRun{Harness: "VerifC11SymbolSet", Params: map[string]int{"MASKA": m[0], "MASKB": m[1]}, LoopBound: 24, SymbolicMapOrder: true, InitExtra: []string{"sort"}},
			ReplayParams: map[string]int{"REPEAT": 200},
			Bounds:       fmt.Sprintf("sets A=%05b, B=%05b over the pool {a,b,c,empty,d}; every range over a map in AddSet/Equal/FirstSets.AddSet visits its entries in an arbitrary, independently chosen order; each function run twice and compared", m[0], m[1])})
	}
	for n := 2; n <= 3; n++ {
		jobs = append(jobs, Job{Name: fmt.Sprintf("LexPart.TokenIds N=%d", n), Target: ta,
			Run:          SymRun{Harness: "VerifC11TokenIds", Params: map[string]int{"N": n}, LoopBound: 24, SymbolicMapOrder: true, InitExtra: []string{"sort"}},
			ReplayParams: map[string]int{"REPEAT": 200},
			Bounds:       fmt.Sprintf("%d token definitions, arbitrary iteration order of the TokDefs map in both runs", n)})
	}
	jobs = append(jobs, c11WriterJobs()...)
	jobs = append(jobs, consistentJobs()...)
	sites, gos, err := mapRangeSites()
	if err != nil {
		c.Inconclusive = append(c.Inconclusive, "listing map ranges: "+err.Error())
	}
	c.RunJobs(filterJobs(jobs), 3)
	var vetted, unvetted []string
	for _, s := range sites {
		fn := s[:strings.Index(s, " (")]
		if c.Funcs[fn] > 0 {
			vetted = append(vetted, s)
		} else {
			unvetted = append(unvetted, s)
		}
	}
	c.Extra["map_range_sites_vetted_by_a_harness"] = vetted
	c.Extra["map_range_sites_not_vetted"] = unvetted
	c.Extra["go_statements_in_gocc_packages"] = gos
	if len(gos) > 0 {
		c.Notes = append(c.Notes, "gocc starts goroutines: scheduling is outside this kernel-level claim")
	}
	c.BoundsText = append(c.BoundsText, "token writer (GenToken), lexer writers (genLexer, genTransitionTable, genActionTable; with and without -debug_lexer) and parser table writers (GenActionTable, GenGotoTable, GenParser, GenProductionsTable; plain and -zip) on a small grammar: template and gob/gzip-encoder input recorded in natural map order and with one execution of a range-over-map statement in another order (every choice on its own path) must be deeply equal")
	c.BoundsText = append(c.BoundsText, "kernel level only: 2-safety harnesses over functions that iterate maps on the generation path, with every map iteration order symbolic (a fresh permutation index per range statement, <= 4 entries); the run also lists from SSA every range over a map in gocc's packages and which of them a harness executed (evidence keys map_range_sites_*), and every go statement (none = no scheduling nondeterminism)",
		"outside the claim: byte identity of whole runs; map ranges listed as not vetted (several only feed debug/verbose output); hash-seed effects other than iteration order")
	c.Assumptions = append(c.Assumptions, "Go's map iteration nondeterminism = an arbitrary permutation of the entries per range statement", "writer jobs: ONE permuted range execution per path (all orders up to 4 entries, 5 orders above); text/template, go/format, gob/gzip and file output are stubs whose INPUT is compared; fmt text is computed concretely")
}

// c11WriterJobs: the parser table writers under "one map range in another order".
func c11WriterJobs() []Job {
	pkg := RepoMod + "/internal/parser/gen/golang"
	t := repoTarget("internal/parser/gen/golang", "golang", "pargen/c11.go")
	rec := func(argIdx int, fn string) engine.Intrinsic {
		return func(e *engine.Engine, st *engine.St, args []engine.Value, call *ssa.CallCommon) (engine.Value, bool) {
			f := e.FindFunc(pkg, fn)
			if f == nil {
				panic("harness function " + fn + " not found")
			}
			return engine.Pack(e.CallFunc(st, f, []engine.Value{args[argIdx]}, nil)), true
		}
	}
	zero := func(e *engine.Engine, st *engine.St, args []engine.Value, call *ssa.CallCommon) (engine.Value, bool) {
		res := call.Signature().Results()
		switch res.Len() {
		case 0:
			return nil, true
		case 1:
			return e.Zero(res.At(0).Type()), true
		}
		return e.Zero(res), true
	}
	execRec := func(e *engine.Engine, st *engine.St, args []engine.Value, call *ssa.CallCommon) (engine.Value, bool) {
		rec(2, "verifRecordExecute")(e, st, args, call)
		return zero(e, st, args, call)
	}
	intr := map[string]engine.Intrinsic{
		"text/template.New":                      zero,
		"(*text/template.Template).Parse":        zero,
		"(*text/template.Template).Execute":      execRec,
		pkg + ".genEnc":                          rec(0, "verifRecordEnc"),
		RepoMod + "/internal/io.WriteFile":       zero,
		RepoMod + "/internal/io.WriteFileString": zero,
		pkg + ".nbytes": func(e *engine.Engine, st *engine.St, args []engine.Value, call *ssa.CallCommon) (engine.Value, bool) {
			x, ok := args[0].(*engine.T)
			if !ok || !x.IsConst() {
				return e.IntV(1, 64), true
			}
			return e.IntV(int64(len(fmt.Sprint(x.Int()))), 64), true
		},
	}
	var jobs []Job
	lpkg := RepoMod + "/internal/lexer/gen/golang"
	lt := repoTarget("internal/lexer/gen/golang", "golang", "lexgen/c11.go")
	lrec := func(e *engine.Engine, st *engine.St, args []engine.Value, call *ssa.CallCommon) (engine.Value, bool) {
		f := e.FindFunc(lpkg, "verifRecordExecute")
		if f == nil {
			panic("harness function verifRecordExecute not found")
		}
		e.CallFunc(st, f, []engine.Value{args[2]}, nil)
		return zero(e, st, args, call)
	}
	lintr := map[string]engine.Intrinsic{
		"text/template.New":                      zero,
		"(*text/template.Template).Parse":        zero,
		"(*text/template.Template).Execute":      lrec,
		RepoMod + "/internal/io.WriteFile":       zero,
		RepoMod + "/internal/io.WriteFileString": zero,
	}
	tpkg := RepoMod + "/internal/token/gen/golang"
	trec := func(e *engine.Engine, st *engine.St, args []engine.Value, call *ssa.CallCommon) (engine.Value, bool) {
		f := e.FindFunc(tpkg, "verifRecordExecute")
		if f == nil {
			panic("harness function verifRecordExecute not found")
		}
		e.CallFunc(st, f, []engine.Value{args[2]}, nil)
		return zero(e, st, args, call)
	}
	jobs = append(jobs, Job{
		Name:   "token writer",
		Target: repoTarget("internal/token/gen/golang", "golang", "tokgen/c11.go"),
		Run: SymRun{Harness: "VerifC11TokenWriter", LoopBound: 2000, ConcreteFmt: true, ForkFuncs: []string{"VerifC11TokenWriter"}, ForkPkgs: []string{tpkg},
			Intrinsics: map[string]engine.Intrinsic{
				"text/template.New":                 zero,
				"(*text/template.Template).Parse":   zero,
				"(*text/template.Template).Execute": trec,
				"go/format.Source":                  zero,
				RepoMod + "/internal/io.WriteFile":  zero,
			},
			InitPkgs: func(p string) bool {
				return p == "sort" || p == "unicode" || p == "unicode/utf8" || p == "strconv" || p == tpkg || p == RepoMod+"/internal/token"
			}},
		TimeoutS:       300,
		ReplayParams:   map[string]int{"REPEAT": 40},
		RequiredCovers: []string{"end"},
		Bounds:         "token/gen/golang.GenToken on a terminal list of eight spellings: the data handed to text/template (typeMap, idMap) in natural map order and with ONE execution of any range-over-map statement in another order must be deeply equal",
	})
	for dbg := 0; dbg <= 1; dbg++ {
		jobs = append(jobs, Job{
			Name:   fmt.Sprintf("lexer writers debug=%d", dbg),
			Target: lt,
			Run: SymRun{Harness: "VerifC11LexWriters", Params: map[string]int{"DEBUG": dbg}, LoopBound: 20000, ConcreteFmt: true, ForkFuncs: []string{"VerifC11LexWriters"}, ForkPkgs: []string{lpkg}, Intrinsics: lintr,
				InitPkgs: func(p string) bool {
					return p == "sort" || p == "unicode" || p == "unicode/utf8" || p == "strconv" || (strings.HasPrefix(p, RepoMod) && !strings.Contains(p, "/gen/") && !strings.HasSuffix(p, "/gen")) || p == lpkg
				}},
			TimeoutS:       900,
			ReplayParams:   map[string]int{"REPEAT": 40},
			RequiredCovers: []string{"end"},
			Bounds:         fmt.Sprintf("lexer/gen/golang.Gen (genLexer, genTransitionTable, genActionTable; debug_lexer=%d) on the item sets of a four-token lexical part: the data handed to text/template, recorded in natural map order and with ONE execution of any range-over-map statement inside the writers in another order, must be deeply equal", dbg),
		})
	}
	for zip := 0; zip <= 1; zip++ {
		jobs = append(jobs, Job{
			Name:   fmt.Sprintf("table writers zip=%d", zip),
			Target: t,
			Run: SymRun{Harness: "VerifC11TableWriters", Params: map[string]int{"ZIP": zip}, LoopBound: 20000, ConcreteFmt: true, ForkFuncs: []string{"VerifC11TableWriters"}, ForkPkgs: []string{pkg}, Intrinsics: intr,
				InitPkgs: func(p string) bool {
					return p == "sort" || p == "unicode" || p == "unicode/utf8" || p == "strconv" || (strings.HasPrefix(p, RepoMod) && !strings.Contains(p, "/gen/") && !strings.HasSuffix(p, "/gen")) || p == pkg
				}},
			TimeoutS:       900,
			ReplayParams:   map[string]int{"REPEAT": 40},
			RequiredCovers: []string{"end"},
			Bounds:         fmt.Sprintf("GenActionTable, GenGotoTable, GenParser, GenProductionsTable (zip=%d) on the item sets of a five-production grammar: the data handed to text/template and to the gob/gzip encoder, recorded in natural map order and with ONE execution of any range-over-map statement inside the writers in another order (every order for maps of up to 4 entries, 5 orders for larger ones; every choice of the execution on its own path), must be deeply equal", zip),
		})
	}
	return jobs
}
