package gv

import (
	"fmt"
	"os"
	"strings"
)

func init() { Register("C18", checkC18) }

func checkC18(c *Ctx) {
	t := repoTarget("internal/lexer/items", "items", "items/c18.go")
	// (max classes with runes in [0,R], max classes with the full 32-bit rune range, from-empty calls)
	maxNsmall, maxNfull, K, R := 2, 1, 2, 255
	if !c.Quick() {
		maxNsmall, maxNfull, K = 3, 2, 3
	}
	fork := []string{"AddRange"}
	var jobs []Job
	add := func(n, capv, r int, tag string) {
		jobs = append(jobs, Job{
			Name:   fmt.Sprintf("step N=%d cap=%d %s", n, capv, tag),
			Target: t,
			Run:    SymRun{Harness: "VerifC18Step", Params: map[string]int{"N": n, "C": capv, "R": r}, LoopBound: 2*n + 6, LoopBounds: map[string]int{"AddRange": n + 4}, ForkFuncs: fork},
			Bounds: fmt.Sprintf("pre-state: exactly %d classes in a slice of capacity %d; class bounds, added range, probe rune arbitrary in [0,%#x]; AddRange loop unwound %d times with unwinding assertion", n, capv, r, n+4),
		})
	}
	for n := 0; n <= maxNsmall; n++ {
		for _, extra := range []int{0, 1, 3} {
			if n <= maxNfull {
				add(n, n+extra, 0x10FFFF, "runes<=0x10FFFF")
			} else {
				add(n, n+extra, R, fmt.Sprintf("runes<=%d", R))
			}
		}
		if n >= 1 {
			r := R
			if n <= maxNfull {
				r = 0x10FFFF
			}
			jobs = append(jobs, Job{
				Name:   fmt.Sprintf("match N=%d", n),
				Target: t,
				Run:    SymRun{Harness: "VerifC18Match", Params: map[string]int{"N": n, "R": r}, LoopBound: 2*n + 6, LoopBounds: map[string]int{"AddRange": n + 4}, ForkFuncs: fork},
				Bounds: fmt.Sprintf("pre-state: exactly %d classes, runes in [0,%#x]; two items (range or literal, arbitrary bounds); AddLexTNode + Item.match", n, r),
			})
		}
	}
	for k := 1; k <= K; k++ {
		r := R
		if k <= 2 {
			r = 0x10FFFF
		}
		jobs = append(jobs, Job{
			Name:   fmt.Sprintf("from-empty K=%d", k),
			Target: t,
			Run:    SymRun{Harness: "VerifC18Empty", Params: map[string]int{"K": k, "R": r}, LoopBound: 2*k + 3, ForkFuncs: fork},
			Bounds: fmt.Sprintf("%d AddRange calls on NewDisjunctRangeSet() with arbitrary ranges in [0,%#x]", k, r),
		})
	}
	c.BoundsText = append(c.BoundsText,
		fmt.Sprintf("inductive step: every well-formed pre-state with 0..%d classes (case split on the class count and on slice capacity n, n+1, n+3), one AddRange with arbitrary from<=to; full rune range [0,0x10FFFF] up to %d classes, runes restricted to [0,%d] above that (AddRange only compares runes and adds/subtracts 1, so the restriction keeps every order/adjacency pattern of up to %d classes); by induction this covers every history whose sets stay within the bound", maxNsmall, maxNfull, R, maxNsmall),
		fmt.Sprintf("from-empty BMC: up to %d calls", K),
		"AddRange is executed path by path (fork mode, every branch decided by the solver), its callers and the oracle code as merged symbolic states",
		"outside the claim: sets with more classes than the bound; from > to or runes outside [0,0x10FFFF] (never produced by the front end)")
	c.Assumptions = append(c.Assumptions,
		"pre-state invariant: classes sorted, pairwise disjoint, non-empty, inside the rune range (every such set is reachable by adding its classes in order)",
		"Go's append growth policy is over-approximated: a grown slice gets a fresh backing array of sufficient capacity",
		"go/ssa lowering and the engine's instruction semantics (validated by native replay of every cover-point model)")
	if f := os.Getenv("GV_ONLY"); f != "" {
		var js []Job
		for _, j := range jobs {
			if strings.HasPrefix(j.Name, f) {
				js = append(js, j)
			}
		}
		jobs = js
	}
	c.RunJobs(jobs, 4)
}
