package gv

import (
	"fmt"

	"golang.org/x/tools/go/ssa"

	"verif/gosym/engine"
)

func init() {
	Register("C19", checkC19)
	Register("C20", checkC20)
}

func checkC19(c *Ctx) {
	t := repoTarget("internal/util/md", "md", "md/c19.go", "md/c19api.go")
	kernel := true
	if l := c.load(t); l.err != nil {
		// the kernel harness calls the unexported loadMd([]rune); if that helper was refactored
		// the API-level harness (GetSource only) still applies
		c.Notes = append(c.Notes, "kernel harness for loadMd does not compile against this tree ("+firstLine(l.err.Error())+"); only the API-level harness on GetSource is run")
		t = repoTarget("internal/util/md", "md", "md/c19api.go")
		kernel = false
	}
	maxL := 12
	if !c.Quick() {
		maxL = 18
	}
	var jobs []Job
	for l := 0; kernel && l <= maxL; l++ {
		jobs = append(jobs, Job{
			Name:   fmt.Sprintf("loadMd L=%d", l),
			Target: t,
			Run:    SymRun{Harness: "VerifC19LoadMd", Params: map[string]int{"L": l}, LoopBound: l + 2},
			Bounds: fmt.Sprintf("input: every []rune of length %d (arbitrary int32 runes) without a run of four backticks", l),
		})
	}
	maxB := 5
	if !c.Quick() {
		maxB = 7
	}
	for l := 0; l <= maxB; l++ {
		jobs = append(jobs, Job{
			Name:           fmt.Sprintf("GetSource bytes=%d", l),
			Target:         t,
			Run:            SymRun{Harness: "VerifC19GetSource", Params: map[string]int{"L": l}, LoopBound: l + 4, Prune: true},
			Bounds:         fmt.Sprintf("md.GetSource on a file of %d arbitrary bytes (ill-formed UTF-8 included) without a run of four backticks; positions compared character by character", l),
			RequiredCovers: []string{"end"},
		})
	}
	c.BoundsText = append(c.BoundsText, fmt.Sprintf("md.GetSource (public API; os.ReadFile served from an in-engine file table) on every file of 0..%d bytes: character positions of the result against the position-wise specification", maxB))
	c.BoundsText = append(c.BoundsText, fmt.Sprintf("md.loadMd on every rune slice of length 0..%d (case split on the length); loop unwound length+2 times with unwinding assertion", maxL),
		"outside the claim: longer inputs; runs of four or more backticks (outside the property's domain); the []rune(string(bytes)) round trip of GetSource for ill-formed UTF-8; file I/O; that blanked text is layout for the front-end scanner (C13)")
	c.Assumptions = append(c.Assumptions, "specification: a fence starts where three backticks follow a non-backtick; a position is code iff an odd number of fences end before it; the front-end scanner counts lines per '\\n' and columns per rune, so position-wise preservation is line/column preservation")
	c.RunJobs(jobs, 4)
}

// parseStub models strconv.ParseInt/ParseUint as uninterpreted functions of their arguments.
func parseStub(name string) engine.Intrinsic {
	return func(e *engine.Engine, st *engine.St, args []engine.Value, call *ssa.CallCommon) (engine.Value, bool) {
		return e.UFOfString(st, name, args[0], []engine.Value{args[1], args[2]}), true
	}
}

func checkC20(c *Ctx) {
	t := repoTarget("internal/util", "util", "util/c20.go", "util/shim_repo.go")
	var jobs []Job
	// the generated copy (util.RuneValue, IntValue, UintValue) from a freshly generated package
	var tg *Target
	if g, err := c.Generate("utilgen", atLexGrammar); err == nil && g.Exit == 0 {
		tg = g.Target("util", "util/c20.go", "genutil/shim_gen.go")
	} else {
		c.Inconclusive = append(c.Inconclusive, fmt.Sprintf("gocc failed while generating the util package: %v", err))
	}
	// lengths at which a valid rune literal exists: 'a', '\n' or 2-byte, 3-byte, '\x41' '\101' or
	// 4-byte, '\u1234', '\U0010FFFF'
	for _, l := range []int{3, 4, 5, 6, 8, 12} {
		jobs = append(jobs, Job{
			Name:   fmt.Sprintf("LitToRune L=%d", l),
			Target: t,
			Run:    SymRun{Harness: "VerifC20LitToRune", Params: map[string]int{"L": l}, LoopBound: 16, InitExtra: []string{"strconv"}},
			Bounds: fmt.Sprintf("every byte string of length %d that is a valid Go rune literal", l),
		})
	}
	if tg != nil {
		for _, l := range []int{3, 4, 5, 6, 8, 12} {
			jobs = append(jobs, Job{
				Name:   fmt.Sprintf("generated RuneValue L=%d", l),
				Target: tg,
				Run:    SymRun{Harness: "VerifC20LitToRune", Params: map[string]int{"L": l}, LoopBound: 16, InitExtra: []string{"strconv"}},
				Bounds: fmt.Sprintf("generated util.RuneValue: every byte string of length %d that is a valid Go rune literal", l),
			})
		}
		for _, l := range []int{0, 2, 19} {
			jobs = append(jobs, Job{
				Name:   fmt.Sprintf("generated IntValue L=%d", l),
				Target: tg,
				Run: SymRun{Harness: "VerifC20IntValue", Params: map[string]int{"L": l}, LoopBound: 24,
					Intrinsics: map[string]engine.Intrinsic{"strconv.ParseInt": parseStub("ParseInt"), "strconv.ParseUint": parseStub("ParseUint")}},
				Bounds: fmt.Sprintf("generated util.IntValue/UintValue: every byte string of length %d", l),
			})
		}
	}
	for _, l := range []int{0, 1, 3, 20} {
		jobs = append(jobs, Job{
			Name:   fmt.Sprintf("IntValue L=%d", l),
			Target: t,
			Run: SymRun{Harness: "VerifC20IntValue", Params: map[string]int{"L": l}, LoopBound: 24,
				Intrinsics: map[string]engine.Intrinsic{"strconv.ParseInt": parseStub("ParseInt"), "strconv.ParseUint": parseStub("ParseUint")}},
			Bounds: fmt.Sprintf("every byte string of length %d", l),
		})
	}
	c.BoundsText = append(c.BoundsText, "both copies: gocc's own util.LitToRune and the util.RuneValue of a package generated on this run (template internal/util/gen/golang/litconv.go)")
	c.BoundsText = append(c.BoundsText, "util.LitToRune on every valid rune literal of 3..12 bytes (12 = '\\U0010FFFF', the longest form); validity and expected value computed by strconv.UnquoteChar + utf8 executed by the same engine",
		"IntValue/UintValue: strconv.ParseInt/ParseUint are uninterpreted functions of (text, base, bitSize); the claim is that the wrappers pass exactly (string(lit), 10, 64) and return the results unchanged")
	c.Assumptions = append(c.Assumptions, "Go's rune-literal semantics = strconv.UnquoteChar(body, '\\'') with no error and empty tail, body valid UTF-8, not a raw newline")
	c.RunJobs(jobs, 4)
}
