package gv

import (
	"encoding/json"
	"fmt"
	"os"
	"path/filepath"
	"sort"
	"strings"
	"sync"
	"time"

	"golang.org/x/tools/go/ssa"

	"verif/gosym/engine"
	"verif/gosym/solver"
)

// Job is one symbolic run of one harness with fixed parameters.
type Job struct {
	Name     string
	Target   *Target
	Run      SymRun
	TimeoutS int
	// AllowPanic: panic records whose message contains one of these are expected behaviour
	// (the harness asserts on them itself) and are not obligations.
	AllowPanic []string
	Bounds     string
	// Abstract: the job runs on abstract tables; a counterexample found there is reported as a
	// violation only if a concrete (corpus) job of the same check fails the same assertion.
	Abstract bool
	// ReplayParams are added to the parameters of replay files (e.g. REPEAT for harnesses whose
	// native behaviour depends on Go's random map iteration order).
	ReplayParams map[string]int
	// RequiredCovers: if non-nil only these cover points must be reachable (others may be
	// unreachable at this bound without making the harness vacuous).
	RequiredCovers []string
	// MaxCoverReplays limits how many cover models are replayed natively (default all).
	MaxCoverReplays int
	// ConfirmOnlyFailures: a native panic does not confirm a counterexample (harnesses whose
	// subject legitimately panics to reject its input); only a failed assertion does.
	ConfirmOnlyFailures bool
	// PanicIsCover: allowed panics become cover obligations named "rejected by panic @file:line"
	PanicIsCover bool
	// UnwindIsViolation: the property of the job IS termination within the stated unwinding
	// bounds: a satisfiable unwinding obligation is a counterexample (confirmed natively when the
	// compiled harness does not finish within the target's replay limits), not "bound too small".
	UnwindIsViolation bool
}

type ObSample struct {
	Job     string  `json:"job"`
	Name    string  `json:"obligation"`
	Kind    string  `json:"kind"`
	What    string  `json:"what"`
	Pos     string  `json:"pos,omitempty"`
	Expect  string  `json:"expect"`
	Status  string  `json:"status"`
	Solver  string  `json:"solver"`
	Seconds float64 `json:"seconds"`
	Bounds  string  `json:"bounds,omitempty"`
}

type Finding struct {
	Job      string
	Ob       string
	Msg      string
	Replay   string
	Native   *NativeResult
	Known    string
	Confirm  bool
	What     string
	Abstract bool
}

// Ctx accumulates the results of one check run.
type Ctx struct {
	ID      string
	Tier    string
	Seed    int
	Scratch string
	Backend solver.Backend
	Par     int

	mu                 sync.Mutex
	T0                 time.Time
	Samples            []ObSample
	Obligations        int
	Discharged         int
	Folded             int
	States             int64
	Transitions        int64
	Validated          int
	ValidationRuns     []string
	SolverSeconds      float64
	ExecSeconds        float64
	Funcs              map[string]int
	Stubs              map[string]int
	BoundsText         []string
	Assumptions        []string
	Violations         []Finding
	AbstractFindings   []Finding
	KnownHits          []string
	Inconclusive       []string
	Mismatches         []string
	Notes              []string
	Jobs               int
	Extra              map[string]interface{}
	CrossChecked       int // query files given to all three solvers (thorough tier)
	CrossTimeouts      int
	ReplayOnly         *ReplayFile // replay mode: only run this saved input natively
	ReplayPath         string
	ReplayResult       *NativeResult
	ReplayOnlyFailures bool
	progs              map[string]*loaded
	bins               map[string]string
}

type loaded struct {
	prog *ssa.Program
	pkg  *ssa.Package
	err  error
}

func NewCtx(id, tier string, seed int) *Ctx {
	scratch, _ := os.MkdirTemp("", "gv-"+id+"-")
	return &Ctx{ID: id, Tier: tier, Seed: seed, Scratch: scratch, Backend: solver.Portfolio, Par: 12, T0: time.Now(),
		Funcs: map[string]int{}, Stubs: map[string]int{}, progs: map[string]*loaded{}, bins: map[string]string{}, Extra: map[string]interface{}{}}
}

func (c *Ctx) Cleanup() {
	if os.Getenv("GV_KEEP") != "" {
		fmt.Fprintln(os.Stderr, "scratch kept:", c.Scratch)
		return
	}
	os.RemoveAll(c.Scratch)
}

func (c *Ctx) Logf(format string, a ...interface{}) {
	fmt.Fprintf(os.Stderr, "[%s %6.1fs] %s\n", c.ID, time.Since(c.T0).Seconds(), fmt.Sprintf(format, a...))
}

func (c *Ctx) load(t *Target) *loaded {
	key := t.PkgDir + "|" + strings.Join(t.Harness, ",")
	c.mu.Lock()
	l, ok := c.progs[key]
	c.mu.Unlock()
	if ok {
		return l
	}
	prog, pkg, err := t.Load()
	l = &loaded{prog, pkg, err}
	c.mu.Lock()
	c.progs[key] = l
	c.mu.Unlock()
	return l
}

// replayBin builds (once) the native test binary of the target with the harness compiled in.
func (c *Ctx) replayBin(t *Target) (string, error) {
	key := t.PkgDir + "|" + strings.Join(t.Harness, ",")
	c.mu.Lock()
	defer c.mu.Unlock()
	if b, ok := c.bins[key]; ok {
		if b == "" {
			return "", fmt.Errorf("native build failed earlier")
		}
		return b, nil
	}
	bin := filepath.Join(c.Scratch, fmt.Sprintf("replay%d.test", len(c.bins)))
	if err := t.BuildReplayBinary(bin, c.Scratch); err != nil {
		c.bins[key] = ""
		return "", err
	}
	c.bins[key] = bin
	return bin, nil
}

func allowed(msg string, allow []string) bool {
	for _, a := range allow {
		if strings.Contains(msg, a) {
			return true
		}
	}
	return false
}

// RunJobs executes and decides all jobs; workers jobs run concurrently.
func (c *Ctx) RunJobs(jobs []Job, workers int) {
	if workers < 1 {
		workers = 1
	}
	if c.ReplayOnly != nil {
		for _, j := range jobs {
			if j.Name == c.ReplayOnly.Job {
				nr, err := c.nativeRun(j, c.ReplayPath)
				c.ReplayOnlyFailures = j.ConfirmOnlyFailures
				if err != nil && j.UnwindIsViolation && nr != nil && nr.Killed {
					fmt.Println("the natively compiled harness did not finish within its time/memory limit")
					c.ReplayResult = &NativeResult{Raw: nr.Raw, Failures: []string{"does not terminate within the replay limits"}}
					continue
				}
				if err != nil && j.ConfirmOnlyFailures && nr != nil {
					// the subject ended the process itself (gocc's os.Exit): it rejected its input
					fmt.Println("the code under test ended the process (os.Exit): no assertion of the harness failed")
					c.ReplayResult = &NativeResult{Raw: nr.Raw}
					continue
				}
				if err != nil {
					fmt.Println("native replay failed:", err)
					return
				}
				c.ReplayResult = nr
			}
		}
		return
	}
	// load programs up front (sequentially: go list is not happy in parallel on a cold cache)
	for i := range jobs {
		l := c.load(jobs[i].Target)
		if l.err != nil {
			c.Inconclusive = append(c.Inconclusive, "load "+jobs[i].Target.PkgPath+": "+l.err.Error())
			return
		}
	}
	var wg sync.WaitGroup
	sem := make(chan struct{}, workers)
	for i := range jobs {
		wg.Add(1)
		sem <- struct{}{}
		go func(j Job) {
			defer wg.Done()
			defer func() { <-sem }()
			c.runJob(j)
		}(jobs[i])
	}
	wg.Wait()
}

func (c *Ctx) runJob(j Job) {
	l := c.load(j.Target)
	if j.TimeoutS == 0 {
		j.TimeoutS = 300
	}
	t0 := time.Now()
	res, err := Exec(l.prog, l.pkg, "", j.Run)
	if err != nil {
		c.mu.Lock()
		c.Inconclusive = append(c.Inconclusive, fmt.Sprintf("%s: %v", j.Name, err))
		c.mu.Unlock()
		c.Logf("job %s: %v", j.Name, err)
		return
	}
	e := res.Engine
	// filter expected panics
	var obs []engine.Obligation
	for _, ob := range res.Obs {
		if (ob.Kind == "panic") && allowed(ob.Rec.Msg+" @"+ob.Rec.Pos, j.AllowPanic) {
			if j.PanicIsCover {
				// the expected rejection is a reachability witness of its own
				ob.Kind, ob.Expect = "cover", "sat"
				ob.Rec.Msg = "rejected by panic @" + ob.Rec.Pos
				ob.Rec.Kind = "cover"
				obs = append(obs, ob)
			}
			continue
		}
		obs = append(obs, ob)
	}
	dir := filepath.Join(c.Scratch, sanitize(j.Name))
	os.MkdirAll(dir, 0o755)
	outs := e.DischargeBatched(obs, c.Backend, dir, j.TimeoutS, c.Par)
	if c.Tier == "thorough" {
		c.crossCheckSolvers(j, dir)
	}
	c.Logf("job %-36s exec %.1fs (feasibility: %d solver calls %.1fs, %d cache hits) solve %.1fs instrs=%d merges=%d terms=%d obligations=%d", j.Name, res.ExecS, res.FeasCalls, res.FeasSecs, res.FeasHits, time.Since(t0).Seconds()-res.ExecS, e.Instrs, e.Merges, e.S.Created, len(obs))

	c.mu.Lock()
	c.Jobs++
	c.States += e.Merges + e.Blocks
	c.Transitions += e.Instrs
	c.ExecSeconds += res.ExecS
	for f, n := range e.FuncsSeen {
		c.Funcs[f] += n
	}
	for f, n := range e.Stubs {
		c.Stubs[f] += n
	}
	c.mu.Unlock()

	if os.Getenv("GV_DUMP") != "" {
		for _, o := range outs {
			fmt.Fprintf(os.Stderr, "  DUMP %s | %-8s %-6s expect %-5s | %s | %s | %s\n", j.Name, o.Ob.Kind, o.Status, o.Ob.Expect, o.Ob.Rec.Msg, o.Ob.Rec.Pos, o.Ob.Rec.Stack)
		}
	}
	coverReplays := 0
	for _, o := range outs {
		s := ObSample{Job: j.Name, Name: o.Ob.Name, Kind: o.Ob.Kind, What: o.Ob.Rec.Msg, Pos: o.Ob.Rec.Pos, Expect: o.Ob.Expect, Status: o.Status, Solver: o.Res.Solver, Seconds: round3(o.Res.Seconds), Bounds: j.Bounds}
		c.mu.Lock()
		c.Obligations++
		c.SolverSeconds += o.Res.Seconds
		if o.Res.Solver == "folded" {
			c.Folded++
		}
		c.Samples = append(c.Samples, s)
		c.mu.Unlock()
		switch {
		case o.OK && o.Ob.Expect == "unsat":
			c.mu.Lock()
			c.Discharged++
			c.mu.Unlock()
		case o.OK && o.Ob.Expect == "sat":
			c.mu.Lock()
			c.Discharged++
			c.mu.Unlock()
			// replay the cover model natively: validates the translation on a real run
			if j.MaxCoverReplays >= 0 && (j.MaxCoverReplays == 0 || coverReplays < j.MaxCoverReplays) {
				coverReplays++
				c.validateCover(j, e, o)
			}
		case o.Ob.Expect == "unsat" && o.Status == "sat":
			c.handleCounterexample(j, e, o)
		case o.Ob.Expect == "sat" && o.Status == "unsat" && j.RequiredCovers != nil && !contains(j.RequiredCovers, o.Ob.Rec.Msg):
			c.mu.Lock()
			c.Discharged++
			c.mu.Unlock()
		case o.Ob.Expect == "sat" && o.Status == "unsat":
			c.mu.Lock()
			c.Inconclusive = append(c.Inconclusive, fmt.Sprintf("%s: cover point %q is unreachable (vacuous harness)", j.Name, o.Ob.Rec.Msg))
			c.mu.Unlock()
		default:
			c.mu.Lock()
			c.Inconclusive = append(c.Inconclusive, fmt.Sprintf("%s: %s %q: solver answered %s after %.0fs", j.Name, o.Ob.Kind, o.Ob.Rec.Msg, o.Status, o.Res.Seconds))
			c.mu.Unlock()
		}
	}
}

func contains(l []string, s string) bool {
	for _, x := range l {
		if x == s {
			return true
		}
	}
	return false
}

// crossCheckSolvers (thorough tier): the query files of this job that the portfolio answered are
// given to the other two solvers as well; two conclusive answers that differ make the run
// inconclusive (a solver or encoding defect), timeouts of the slower solvers are only counted.
func (c *Ctx) crossCheckSolvers(j Job, dir string) {
	files, _ := filepath.Glob(filepath.Join(dir, "*.smt2"))
	budget := 2 // files per job
	for _, f := range files {
		if strings.HasSuffix(f, ".model.smt2") {
			continue
		}
		if budget == 0 {
			break
		}
		budget--
		answers := map[string]string{}
		var amu sync.Mutex
		var wg sync.WaitGroup
		for _, be := range []solver.Backend{solver.Z3New, solver.Z3, solver.CVC5} {
			wg.Add(1)
			go func(be solver.Backend) {
				defer wg.Done()
				r := solver.RunFile(be, f, 30)
				amu.Lock()
				answers[be.Name] = r.Status
				amu.Unlock()
			}(be)
		}
		wg.Wait()
		c.mu.Lock()
		c.CrossChecked++
		conclusive := ""
		for _, a := range answers {
			if a == "sat" || a == "unsat" {
				if conclusive != "" && conclusive != a {
					c.Inconclusive = append(c.Inconclusive, fmt.Sprintf("%s: solvers disagree on %s: %v", j.Name, filepath.Base(f), answers))
				}
				conclusive = a
			} else {
				c.CrossTimeouts++
			}
		}
		c.mu.Unlock()
	}
}

func round3(f float64) float64 { return float64(int(f*1000)) / 1000 }

func sanitize(s string) string {
	r := strings.NewReplacer(" ", "_", "/", "_", "=", "", ",", "_", ":", "_", "(", "", ")", "")
	return r.Replace(s)
}

func (c *Ctx) writeReplay(j Job, e *engine.Engine, o engine.Outcome, sub string) (string, ReplayFile) {
	params := map[string]int{}
	for k, v := range j.Run.Params {
		params[k] = v
	}
	for k, v := range j.ReplayParams {
		params[k] = v
	}
	rf := ReplayFile{Check: c.ID, Job: j.Name, Harness: j.Run.Harness, Target: j.Target.PkgPath, Values: e.ModelValues(o.Res.Model), Params: params, UF: e.UFTables(o.Res.Model), Note: fmt.Sprintf("%s %s: %s (%s)", j.Name, o.Ob.Kind, o.Ob.Rec.Msg, o.Ob.Rec.Pos)}
	p := filepath.Join(VerifRoot, "replays", c.ID, sub, sanitize(j.Name)+"-"+o.Ob.Name+".json")
	WriteReplay(p, rf)
	return p, rf
}

func (c *Ctx) nativeRun(j Job, replayPath string) (*NativeResult, error) {
	bin, err := c.replayBin(j.Target)
	if err != nil {
		return nil, err
	}
	return j.Target.RunReplayBinary(bin, j.Run.Harness, replayPath)
}

func (c *Ctx) validateCover(j Job, e *engine.Engine, o engine.Outcome) {
	p, _ := c.writeReplay(j, e, o, "tmp")
	defer os.Remove(p)
	nr, err := c.nativeRun(j, p)
	c.mu.Lock()
	defer c.mu.Unlock()
	if err != nil {
		c.Mismatches = append(c.Mismatches, fmt.Sprintf("%s cover %q: native replay failed: %v", j.Name, o.Ob.Rec.Msg, err))
		return
	}
	hit := false
	for _, cv := range nr.Covered {
		if cv == o.Ob.Rec.Msg {
			hit = true
		}
	}
	// The model satisfies this cover's path condition; the native run must reach the same
	// point without tripping an assumption. (Assertions may fail natively only if the
	// corresponding obligation is sat as well; that is reported there.)
	if !hit || nr.AssumeFailed != 0 {
		c.Mismatches = append(c.Mismatches, fmt.Sprintf("%s cover %q: engine says reachable with this model, native run disagrees (covered=%v assume_failed=%d panic=%q)", j.Name, o.Ob.Rec.Msg, nr.Covered, nr.AssumeFailed, nr.Panic))
		return
	}
	c.Validated++
}

func (c *Ctx) handleCounterexample(j Job, e *engine.Engine, o engine.Outcome) {
	if o.Ob.Kind == "unwind" && j.UnwindIsViolation {
		p, _ := c.writeReplay(j, e, o, "")
		nr, err := c.nativeRun(j, p)
		c.mu.Lock()
		defer c.mu.Unlock()
		hung := nr != nil && nr.Killed
		if err == nil && nr != nil && nr.Panic != "" && strings.Contains(nr.Panic, "out of memory") {
			hung = true
		}
		if !hung {
			c.Mismatches = append(c.Mismatches, fmt.Sprintf("%s: unwinding bound exceeded in the engine (%s) but the native run finished (killed=%v err=%v): bound too small? replay=%s", j.Name, o.Ob.Rec.Msg, nr != nil && nr.Killed, firstLine(fmt.Sprint(err)), p))
			return
		}
		c.Violations = append(c.Violations, Finding{Job: j.Name, Ob: o.Ob.Name, Msg: fmt.Sprintf("does not terminate within the unwinding bound: %s (%s); the natively compiled harness did not finish within %d s / %d KB either", o.Ob.Rec.Msg, o.Ob.Rec.Pos, j.Target.ReplayTimeoutS, j.Target.ReplayMemKB), Replay: p, Native: nr, Confirm: true, What: "termination: " + o.Ob.Rec.Msg})
		return
	}
	if o.Ob.Kind == "unwind" {
		c.mu.Lock()
		c.Inconclusive = append(c.Inconclusive, fmt.Sprintf("%s: unwinding bound too small: %s (%s)", j.Name, o.Ob.Rec.Msg, o.Ob.Rec.Pos))
		c.mu.Unlock()
		return
	}
	p, _ := c.writeReplay(j, e, o, "")
	nr, err := c.nativeRun(j, p)
	c.mu.Lock()
	defer c.mu.Unlock()
	if err != nil {
		c.Mismatches = append(c.Mismatches, fmt.Sprintf("%s %s %q: native replay failed: %v", j.Name, o.Ob.Kind, o.Ob.Rec.Msg, err))
		return
	}
	confirmed := false
	switch o.Ob.Kind {
	case "assert":
		// the native run stops at its first failing assertion, which may be another assertion of
		// the same harness than the one this model was computed for: any failure confirms
		confirmed = len(nr.Failures) > 0 || nr.Panic != ""
	case "panic":
		confirmed = nr.Panic != ""
	case "unwind":
		// the native run must still be going after the bound; harnesses report that through a panic
		confirmed = nr.Panic != "" || len(nr.Failures) > 0
	case "sharedwrite":
		confirmed = true // structural fact about the store site; nothing to observe natively
	}
	if nr.AssumeFailed != 0 {
		confirmed = false
	}
	if j.ConfirmOnlyFailures && len(nr.Failures) == 0 {
		confirmed = false
	}
	f := Finding{Job: j.Name, Ob: o.Ob.Name, Msg: fmt.Sprintf("%s: %s (%s)", o.Ob.Kind, o.Ob.Rec.Msg, o.Ob.Rec.Pos), Replay: p, Native: nr, Confirm: confirmed, What: o.Ob.Rec.Msg, Abstract: j.Abstract}
	if !confirmed {
		c.Mismatches = append(c.Mismatches, fmt.Sprintf("%s %s %q: solver model does not reproduce natively (failures=%v panic=%q assume_failed=%d) replay=%s", j.Name, o.Ob.Kind, o.Ob.Rec.Msg, nr.Failures, nr.Panic, nr.AssumeFailed, p))
		return
	}
	if j.Abstract {
		c.AbstractFindings = append(c.AbstractFindings, f)
		return
	}
	c.Violations = append(c.Violations, f)
}

// ---- evidence -------------------------------------------------------------------------

type Evidence struct {
	PropertyID  string                 `json:"property_id"`
	Tier        string                 `json:"tier"`
	Seed        int                    `json:"seed"`
	Level       string                 `json:"level"`
	Coverage    map[string]interface{} `json:"coverage"`
	Assumptions []string               `json:"assumptions"`
	WallS       float64                `json:"wall_s"`
	Violations  int                    `json:"violations"`
}

func (c *Ctx) WriteEvidence() error {
	for _, k := range []string{"GV_ONLY", "GV_RANDOM_ONLY", "GV_REPO"} {
		if v := os.Getenv(k); v != "" {
			c.Notes = append(c.Notes, fmt.Sprintf("PARTIAL OR REDIRECTED RUN: %s=%q (a development aid; the registered commands never set it)", k, v))
		}
	}
	sort.Slice(c.Samples, func(i, j int) bool {
		if c.Samples[i].Job != c.Samples[j].Job {
			return c.Samples[i].Job < c.Samples[j].Job
		}
		return c.Samples[i].Name < c.Samples[j].Name
	})
	// samples: all assertions, unwinds, covers; panics summarised (first 10)
	var samples []interface{}
	np := 0
	for _, s := range c.Samples {
		if s.Kind == "panic" || s.Kind == "panicbatch" {
			np++
			if np > 10 {
				continue
			}
		}
		samples = append(samples, s)
	}
	if len(samples) > 400 {
		samples = samples[:400]
	}
	var funcs []string
	for f := range c.Funcs {
		if !strings.Contains(f, "verif") && !strings.Contains(f, "Verif") {
			funcs = append(funcs, f)
		}
	}
	sort.Strings(funcs)
	var stubs []string
	for f, n := range c.Stubs {
		stubs = append(stubs, fmt.Sprintf("%s (x%d)", f, n))
	}
	sort.Strings(stubs)
	cov := map[string]interface{}{
		"states":                        max64(c.States, 1),
		"transitions":                   max64(c.Transitions, 1),
		"traces_validated_against_impl": c.Validated,
		"samples":                       samples,
		"obligations":                   c.Obligations,
		"discharged":                    c.Discharged,
		"decided_by_constant_folding":   c.Folded,
		"jobs":                          c.Jobs,
		"functions_encoded":             funcs,
		"stubs":                         stubs,
		"bounds":                        c.BoundsText,
		"solver":                        c.Backend.Name,
		"solver_seconds_total":          round3(c.SolverSeconds),
		"symbolic_execution_seconds":    round3(c.ExecSeconds),
		"solver_cross_check_files":      c.CrossChecked,
		"solver_cross_check_timeouts":   c.CrossTimeouts,
		"inconclusive":                  c.Inconclusive,
		"engine_mismatches":             c.Mismatches,
		"known_findings_matched":        c.KnownHits,
		"notes":                         c.Notes,
		"explanation":                   "states = merged symbolic states (basic-block executions + state merges); transitions = SSA instructions executed symbolically; each sample is one SMT obligation (QF_BV) with the solver verdict; traces_validated_against_impl = solver models (cover points) replayed through the natively compiled harness with matching outcome",
	}
	for k, v := range c.Extra {
		cov[k] = v
	}
	if len(samples) == 0 {
		cov["samples"] = []interface{}{"no obligations were produced"}
	}
	c.Assumptions = append(c.Assumptions,
		"go/ssa lowering of the code under test and the gosym engine's instruction semantics (validated on every run by replaying solver models through the natively compiled harness)",
		"stubs: fmt/strings.Builder/os printing functions evaluate their arguments and do nothing; formatting returns an opaque string (list in coverage.stubs)",
		"solver answers (z3 5.1.0, z3 4.8.12, cvc5 1.0); any error, unknown or timeout makes the run inconclusive (exit 3), never a success")
	ev := Evidence{PropertyID: c.ID, Tier: c.Tier, Seed: c.Seed, Level: "model_checking", Coverage: cov, Assumptions: c.Assumptions, WallS: round3(time.Since(c.T0).Seconds()), Violations: len(c.Violations)}
	b, _ := json.MarshalIndent(ev, "", " ")
	dir := filepath.Join(VerifRoot, "evidence")
	if r := os.Getenv("GV_REPO"); r != "" {
		// a run against a scratch tree never overwrites the evidence of the registered checks
		dir = filepath.Join(r, ".gv-evidence")
	}
	os.MkdirAll(dir, 0o755)
	return os.WriteFile(filepath.Join(dir, c.ID+".json"), b, 0o644)
}

func max64(a, b int64) int64 {
	if a > b {
		return a
	}
	return b
}

// Finish prints the verdict lines and returns the exit code.
type knownFinding struct {
	ID        string   `json:"id"`
	Property  string   `json:"property"`
	Status    string   `json:"status"`
	JobPrefix string   `json:"job_prefix"`
	Asserts   []string `json:"asserts"`
	What      string   `json:"what"`
}

func loadKnown() []knownFinding {
	b, err := os.ReadFile(filepath.Join(VerifRoot, "known_findings.json"))
	if err != nil {
		return nil
	}
	var f struct {
		Findings []knownFinding `json:"findings"`
	}
	json.Unmarshal(b, &f)
	return f.Findings
}

// applyKnown moves confirmed violations that are exactly a listed open finding (same dedicated
// corpus job, same assertion) to the known-findings list; everything else stays a violation.
func (c *Ctx) applyKnown() {
	known := loadKnown()
	var rest []Finding
	seen := map[string]bool{}
	for _, v := range c.Violations {
		matched := false
		for _, k := range known {
			if k.Property == c.ID && k.Status == "open" && strings.HasPrefix(v.Job, k.JobPrefix) && contains(k.Asserts, v.What) {
				matched = true
				if !seen[k.ID] {
					seen[k.ID] = true
					c.KnownHits = append(c.KnownHits, fmt.Sprintf("[%s] %s (reproduced: %s, replay %s)", k.ID, k.What, v.Job, v.Replay))
				}
			}
		}
		if !matched {
			rest = append(rest, v)
		}
	}
	c.Violations = rest
	for _, k := range known {
		if k.Property == c.ID && k.Status == "open" && !seen[k.ID] {
			c.Notes = append(c.Notes, fmt.Sprintf("known finding %s did not reproduce in this run (stale entry, or its job was not part of this tier)", k.ID))
		}
	}
}

func (c *Ctx) Finish() int {
	c.applyKnown()
	if c.Obligations == 0 && len(c.Inconclusive) == 0 {
		c.Inconclusive = append(c.Inconclusive, "no obligation was produced (no job ran)")
	}
	// abstract-table counterexamples: believed only with a concrete witness of the same assertion
	for _, a := range c.AbstractFindings {
		found := false
		for _, v := range c.Violations {
			if v.What == a.What {
				found = true
			}
		}
		if !found {
			c.Inconclusive = append(c.Inconclusive, fmt.Sprintf("%s: abstract-table counterexample for %q does not transfer to any corpus grammar (tables no grammar produces, or corpus too small); replay=%s", a.Job, a.What, a.Replay))
		} else {
			c.Notes = append(c.Notes, fmt.Sprintf("abstract-table counterexample for %q (job %s) confirmed by a corpus grammar", a.What, a.Job))
		}
	}
	c.WriteEvidence()
	code := 0
	for _, k := range c.KnownHits {
		fmt.Printf("KNOWN-FINDING: property=%s %s\n", c.ID, k)
	}
	for _, v := range c.Violations {
		fmt.Printf("VIOLATION property=%s replay=%s\n", c.ID, v.Replay)
		fmt.Printf("  %s: %s\n", v.Job, v.Msg)
		code = 1
	}
	if code == 0 && (len(c.Inconclusive) > 0 || len(c.Mismatches) > 0) {
		for _, m := range c.Mismatches {
			fmt.Printf("ENGINE-MISMATCH %s\n", m)
		}
		for _, m := range c.Inconclusive {
			fmt.Printf("INCONCLUSIVE %s\n", m)
		}
		code = 3
	}
	if code == 0 {
		fmt.Printf("OK property=%s tier=%s obligations=%d discharged=%d validated_replays=%d wall=%.1fs\n", c.ID, c.Tier, c.Obligations, c.Discharged, c.Validated, time.Since(c.T0).Seconds())
	}
	return code
}
