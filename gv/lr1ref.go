package gv

import (
	"fmt"
	"sort"
	"strings"
)

// Reference canonical LR(1) construction (Dragon book 4.7), independent of gocc's code:
// FIRST by fixpoint, closure/goto over (production, dot, look-ahead) triples, states numbered
// in discovery order, no merging. Competing actions are resolved after construction by the
// rule of C05: shift if present, else the reduction declared first.

const (
	refEOF = -1 // look-ahead / terminal code for end of input
)

type refItem struct {
	prod, dot, la int
}

type RefLR struct {
	G *SynGrammar
	// symbols: terminals 0..nT-1 (index into Terms; the error symbol, if used, is the last
	// terminal), nonterminals encoded as -(k+1)
	Terms    []string
	ErrTerm  int // index of the error symbol among terminals, -1 if unused
	NTs      []string
	Prods    [][]int // body codes; production 0 is S' -> S
	Heads    []int   // nonterminal index per production (S' = len(NTs))
	States   [][]refItem
	Goto     []map[int]int // per state: symbol code -> state
	Actions  [][][]int     // per state, per terminal column (0..nT = EOF last): candidate actions
	Resolved [][]int       // after resolution: 0 error, 1 accept, 2+s shift s, -(p+1) reduce p
	Conflict bool
}

func actShift(s int) int  { return 2 + s }
func actReduce(p int) int { return -(p + 1) }

const actAccept = 1

// BuildRefLR builds the automaton. Production numbering: 0 = S' -> S, k+1 = g.Prods[k].
func BuildRefLR(g *SynGrammar) *RefLR {
	r := &RefLR{G: g, ErrTerm: -1}
	tidx := map[string]int{}
	for _, t := range g.Terminals() {
		tidx[t.Name] = len(r.Terms)
		r.Terms = append(r.Terms, t.Name)
	}
	for _, p := range g.Prods {
		for _, s := range p.Body {
			if s.Error && r.ErrTerm < 0 {
				r.ErrTerm = len(r.Terms)
				r.Terms = append(r.Terms, "error")
			}
		}
	}
	nidx := map[string]int{}
	for _, n := range g.NonTerminals() {
		nidx[n] = len(r.NTs)
		r.NTs = append(r.NTs, n)
	}
	r.Prods = append(r.Prods, []int{-(0 + 1)})
	r.Heads = append(r.Heads, len(r.NTs))
	for _, p := range g.Prods {
		var body []int
		for _, s := range p.Body {
			switch {
			case s.Error:
				body = append(body, r.ErrTerm)
			case s.Term:
				body = append(body, tidx[s.Name])
			default:
				body = append(body, -(nidx[s.Name] + 1))
			}
		}
		r.Prods = append(r.Prods, body)
		r.Heads = append(r.Heads, nidx[p.Head])
	}
	nNT := len(r.NTs) + 1
	// nullable and FIRST
	nullable := make([]bool, nNT)
	first := make([]map[int]bool, nNT)
	for i := range first {
		first[i] = map[int]bool{}
	}
	for changed := true; changed; {
		changed = false
		for pi, body := range r.Prods {
			h := r.Heads[pi]
			allNull := true
			for _, x := range body {
				if x >= 0 {
					if !first[h][x] {
						first[h][x] = true
						changed = true
					}
					allNull = false
					break
				}
				for t := range first[-x-1] {
					if !first[h][t] {
						first[h][t] = true
						changed = true
					}
				}
				if !nullable[-x-1] {
					allNull = false
					break
				}
			}
			if allNull && !nullable[h] {
				nullable[h] = true
				changed = true
			}
		}
	}
	firstOf := func(seq []int, la int) map[int]bool {
		out := map[int]bool{}
		for _, x := range seq {
			if x >= 0 {
				out[x] = true
				return out
			}
			for t := range first[-x-1] {
				out[t] = true
			}
			if !nullable[-x-1] {
				return out
			}
		}
		out[la] = true
		return out
	}
	closure := func(items []refItem) []refItem {
		seen := map[refItem]bool{}
		var work []refItem
		for _, it := range items {
			if !seen[it] {
				seen[it] = true
				work = append(work, it)
			}
		}
		for i := 0; i < len(work); i++ {
			it := work[i]
			body := r.Prods[it.prod]
			if it.dot >= len(body) || body[it.dot] >= 0 {
				continue
			}
			b := -body[it.dot] - 1
			las := firstOf(body[it.dot+1:], it.la)
			for pi := range r.Prods {
				if r.Heads[pi] != b {
					continue
				}
				for la := range las {
					ni := refItem{pi, 0, la}
					if !seen[ni] {
						seen[ni] = true
						work = append(work, ni)
					}
				}
			}
		}
		sort.Slice(work, func(i, j int) bool {
			a, b := work[i], work[j]
			if a.prod != b.prod {
				return a.prod < b.prod
			}
			if a.dot != b.dot {
				return a.dot < b.dot
			}
			return a.la < b.la
		})
		return work
	}
	key := func(items []refItem) string {
		var b strings.Builder
		for _, it := range items {
			fmt.Fprintf(&b, "%d.%d.%d;", it.prod, it.dot, it.la)
		}
		return b.String()
	}
	index := map[string]int{}
	start := closure([]refItem{{0, 0, refEOF}})
	r.States = append(r.States, start)
	r.Goto = append(r.Goto, map[int]int{})
	index[key(start)] = 0
	for si := 0; si < len(r.States); si++ {
		// symbols after the dot, in a deterministic order
		var syms []int
		seenSym := map[int]bool{}
		for _, it := range r.States[si] {
			body := r.Prods[it.prod]
			if it.dot < len(body) && !seenSym[body[it.dot]] {
				seenSym[body[it.dot]] = true
				syms = append(syms, body[it.dot])
			}
		}
		sort.Ints(syms)
		for _, x := range syms {
			var moved []refItem
			for _, it := range r.States[si] {
				body := r.Prods[it.prod]
				if it.dot < len(body) && body[it.dot] == x {
					moved = append(moved, refItem{it.prod, it.dot + 1, it.la})
				}
			}
			ns := closure(moved)
			k := key(ns)
			ti, ok := index[k]
			if !ok {
				ti = len(r.States)
				index[k] = ti
				r.States = append(r.States, ns)
				r.Goto = append(r.Goto, map[int]int{})
			}
			r.Goto[si][x] = ti
		}
	}
	nT := len(r.Terms)
	col := func(t int) int {
		if t == refEOF {
			return nT
		}
		return t
	}
	r.Actions = make([][][]int, len(r.States))
	r.Resolved = make([][]int, len(r.States))
	for si, st := range r.States {
		r.Actions[si] = make([][]int, nT+1)
		r.Resolved[si] = make([]int, nT+1)
		add := func(c, a int) {
			for _, x := range r.Actions[si][c] {
				if x == a {
					return
				}
			}
			r.Actions[si][c] = append(r.Actions[si][c], a)
		}
		for _, it := range st {
			body := r.Prods[it.prod]
			switch {
			case it.dot < len(body) && body[it.dot] >= 0:
				add(col(body[it.dot]), actShift(r.Goto[si][body[it.dot]]))
			case it.dot >= len(body) && it.prod == 0 && it.la == refEOF:
				add(col(refEOF), actAccept)
			case it.dot >= len(body):
				add(col(it.la), actReduce(it.prod))
			}
		}
		for c := 0; c <= nT; c++ {
			cands := r.Actions[si][c]
			if len(cands) > 1 {
				r.Conflict = true
			}
			res := 0
			for _, a := range cands { // shift wins
				if a >= 2 {
					res = a
				}
			}
			if res == 0 {
				best := -1
				for _, a := range cands {
					if a < 0 && (best < 0 || -(a+1) < best) {
						best = -(a + 1)
					}
				}
				if best >= 0 {
					res = actReduce(best)
				}
			}
			if res == 0 {
				for _, a := range cands {
					if a == actAccept {
						res = a
					}
				}
			}
			r.Resolved[si][c] = res
		}
	}
	return r
}

// HarnessTables emits the reference tables as Go data for the parser harness. Terminal
// columns follow verifTermNames (error symbol, if any, after them), the last column is EOF.
func (r *RefLR) HarnessTables() string {
	var b strings.Builder
	b.WriteString("//go:build verif\n\npackage parser\n\n")
	fmt.Fprintf(&b, "// reference canonical LR(1) automaton of %s built by /verif: %d states, conflicts: %v\n", r.G.Name, len(r.States), r.Conflict)
	fmt.Fprintf(&b, "const verifRefNT = %d\nconst verifRefErrCol = %d\n", len(r.Terms), r.ErrTerm)
	b.WriteString("var verifRefAction = [][]int{\n")
	for _, row := range r.Resolved {
		b.WriteString("\t{")
		for _, a := range row {
			fmt.Fprintf(&b, "%d, ", a)
		}
		b.WriteString("},\n")
	}
	b.WriteString("}\n")
	b.WriteString("var verifRefGoto = [][]int{\n")
	for _, g := range r.Goto {
		b.WriteString("\t{")
		for k := 0; k <= len(r.NTs); k++ {
			if t, ok := g[-(k + 1)]; ok {
				fmt.Fprintf(&b, "%d, ", t)
			} else {
				b.WriteString("-1, ")
			}
		}
		b.WriteString("},\n")
	}
	b.WriteString("}\n")
	b.WriteString("var verifRefProdLen = []int{")
	for _, p := range r.Prods {
		fmt.Fprintf(&b, "%d, ", len(p))
	}
	b.WriteString("}\nvar verifRefProdHead = []int{")
	for _, h := range r.Heads {
		fmt.Fprintf(&b, "%d, ", h)
	}
	b.WriteString("}\n")
	return b.String()
}
