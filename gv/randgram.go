package gv

import (
	"fmt"
	"math/rand"
)

// Random small context-free grammars for the thorough tiers: the token-sequence axis stays
// symbolic (solver-decided); the grammar axis is sampled, seeded by VERIF_SEED, and is declared
// as sampling in the evidence.

func randomSynGrammar(rng *rand.Rand, id int) *SynGrammar {
	nts := []string{"S", "A", "B", "C"}[:2+rng.Intn(3)]
	terms := []string{"a", "b", "c", "d"}[:2+rng.Intn(3)]
	g := &SynGrammar{Name: fmt.Sprintf("R%d", id), Why: "random grammar", Lex: stdLex}
	for _, h := range nts {
		alts := 1 + rng.Intn(3)
		for a := 0; a < alts; a++ {
			ln := rng.Intn(4)
			if rng.Intn(7) == 0 {
				ln = 0
			}
			var body []Sym
			for k := 0; k < ln; k++ {
				if rng.Intn(5) < 2 {
					body = append(body, NT(nts[rng.Intn(len(nts))]))
				} else {
					body = append(body, Lit(terms[rng.Intn(len(terms))]))
				}
			}
			// no duplicate alternative
			dup := false
			for _, p := range g.Prods {
				if p.Head == h && len(p.Body) == len(body) {
					same := true
					for i := range body {
						if p.Body[i] != body[i] {
							same = false
						}
					}
					if same {
						dup = true
					}
				}
			}
			if !dup {
				g.Prods = append(g.Prods, Prod{Head: h, Body: body})
			}
		}
	}
	return g
}

// hasDerivationCycle: A =>+ A (through unit steps with nullable context); such grammars make an
// auto-resolved parser reduce forever and are outside every property's domain.
func hasDerivationCycle(g *SynGrammar) bool {
	nts := g.NonTerminals()
	idx := map[string]int{}
	for i, n := range nts {
		idx[n] = i
	}
	nullable := make([]bool, len(nts))
	for changed := true; changed; {
		changed = false
		for _, p := range g.Prods {
			all := true
			for _, s := range p.Body {
				if s.Term || !nullable[idx[s.Name]] {
					all = false
				}
			}
			if all && !nullable[idx[p.Head]] {
				nullable[idx[p.Head]] = true
				changed = true
			}
		}
	}
	n := len(nts)
	reach := make([][]bool, n)
	for i := range reach {
		reach[i] = make([]bool, n)
	}
	for _, p := range g.Prods {
		for k, s := range p.Body {
			if s.Term {
				continue
			}
			rest := true
			for j, o := range p.Body {
				if j != k && (o.Term || !nullable[idx[o.Name]]) {
					rest = false
				}
			}
			if rest {
				reach[idx[p.Head]][idx[s.Name]] = true
			}
		}
	}
	for k := 0; k < n; k++ {
		for i := 0; i < n; i++ {
			for j := 0; j < n; j++ {
				if reach[i][k] && reach[k][j] {
					reach[i][j] = true
				}
			}
		}
	}
	for i := 0; i < n; i++ {
		if reach[i][i] {
			return true
		}
	}
	return false
}

// usesAllNTs: every nonterminal is reachable from the start symbol and defined (gocc rejects
// undefined symbols; unreachable ones are fine but uninteresting).
func usesAllNTs(g *SynGrammar) bool {
	nts := g.NonTerminals()
	if len(nts) == 0 || len(g.Prods) == 0 {
		return false
	}
	defined := map[string]bool{}
	for _, n := range nts {
		defined[n] = true
	}
	reach := map[string]bool{g.Prods[0].Head: true}
	for changed := true; changed; {
		changed = false
		for _, p := range g.Prods {
			if !reach[p.Head] {
				continue
			}
			for _, s := range p.Body {
				if !s.Term {
					if !defined[s.Name] {
						return false
					}
					if !reach[s.Name] {
						reach[s.Name] = true
						changed = true
					}
				}
			}
		}
	}
	for _, n := range nts {
		if !reach[n] {
			return false
		}
	}
	return len(g.Terminals()) > 0
}

// RandomGrammars draws grammars until `want` of the requested kind (conflicting or not,
// according to /verif's reference LR(1) construction) are found.
func RandomGrammars(seed int64, want int, conflicting bool) []*SynGrammar {
	rng := rand.New(rand.NewSource(seed*7919 + 17))
	var out []*SynGrammar
	for id := 0; len(out) < want && id < 4000; id++ {
		g := randomSynGrammar(rng, id)
		if !usesAllNTs(g) || hasDerivationCycle(g) {
			continue
		}
		r := BuildRefLR(g)
		if len(r.States) > 40 || r.Conflict != conflicting {
			continue
		}
		if conflicting {
			g.Flags = []string{"-a"}
		}
		g.Name = fmt.Sprintf("R%d_%d", seed, id)
		out = append(out, g)
	}
	return out
}

// ---- random lexical grammars (thorough tier of C01) -----------------------------------------

func randLexPat(rng *rand.Rand, depth int, alphabet []rune) LPat {
	nalt := 1
	if rng.Intn(3) == 0 {
		nalt = 2
	}
	var out LPat
	for a := 0; a < nalt; a++ {
		n := 1 + rng.Intn(3)
		var seq []LTerm
		for i := 0; i < n; i++ {
			switch k := rng.Intn(10); {
			case k < 5 || depth == 0:
				seq = append(seq, C(alphabet[rng.Intn(len(alphabet))]))
			case k < 7:
				lo := alphabet[rng.Intn(len(alphabet))]
				hi := alphabet[rng.Intn(len(alphabet))]
				if lo > hi {
					lo, hi = hi, lo
				}
				seq = append(seq, R(lo, hi))
			case k == 7:
				seq = append(seq, Opt(randLexPat(rng, depth-1, alphabet)))
			case k == 8:
				seq = append(seq, Rep(randLexPat(rng, depth-1, alphabet)))
			default:
				seq = append(seq, Grp(randLexPat(rng, depth-1, alphabet)))
			}
		}
		out.Alts = append(out.Alts, seq)
	}
	return out
}

func lexNullable(p LPat) bool {
	for _, alt := range p.Alts {
		all := true
		for _, t := range alt {
			switch t.Kind {
			case LOpt, LRep:
			case LGroup:
				if !lexNullable(*t.Sub) {
					all = false
				}
			default:
				all = false
			}
		}
		if all {
			return true
		}
	}
	return false
}

// RandomLexSpecs draws lexical grammars without regular definitions (the D7 shape is pinned to
// its own corpus grammar) and without patterns that match the empty string.
func RandomLexSpecs(seed int64, want int) []*LexSpec {
	rng := rand.New(rand.NewSource(seed*104729 + 7))
	alphabet := []rune{'a', 'b', 'c', 'd', '0', '1', 0xe9}
	var out []*LexSpec
	for id := 0; len(out) < want && id < 1000; id++ {
		l := &LexSpec{Name: fmt.Sprintf("RL%d_%d", seed, id), Why: "random lexical grammar", SynLits: []string{"q"}}
		ntok := 2 + rng.Intn(3)
		ok := true
		for t := 0; t < ntok; t++ {
			p := randLexPat(rng, 2, alphabet)
			if lexNullable(p) {
				ok = false
				break
			}
			name := fmt.Sprintf("t%d", t)
			if t == ntok-1 && rng.Intn(3) == 0 {
				name = "!ig"
			}
			l.Prods = append(l.Prods, LProd{name, p})
		}
		if !ok {
			continue
		}
		if n := l.BuildNFA(); n.n > 60 {
			continue
		}
		out = append(out, l)
	}
	return out
}

// ---- structured variation of corpus grammars ------------------------------------------------

// varyGrammar applies a few random, mostly LR(1)-preserving transformations to a corpus
// grammar: wrap a terminal in a fresh nonterminal, insert a nullable nonterminal, put a unit
// chain in front of a nonterminal, add an alternative with an extra leading terminal, and
// reorder the productions (start symbol stays first). Pure random grammars that are
// conflict-free are almost always trivial; these keep the richness of the corpus.
func varyGrammar(rng *rand.Rand, base *SynGrammar, id int) *SynGrammar {
	g := &SynGrammar{Name: fmt.Sprintf("V%s_%d", base.Name, id), Why: "variation of " + base.Name, Lex: stdLex}
	for _, p := range base.Prods {
		body := make([]Sym, len(p.Body))
		for i, s := range p.Body {
			if s.Term && !s.Lit && !s.Error {
				s = Lit(s.Name) // corpus token ids become literals: the lexical part is the standard one
			}
			body[i] = s
		}
		g.Prods = append(g.Prods, Prod{Head: p.Head, Body: body})
	}
	fresh := 0
	newNT := func() string {
		fresh++
		return fmt.Sprintf("N%d", fresh)
	}
	nsteps := 3 + rng.Intn(4)
	for step := 0; step < nsteps; step++ {
		switch rng.Intn(6) {
		case 5: // a nonterminal in a second look-ahead context (same cores, other look-aheads)
			var nts []string
			for _, p := range g.Prods[1:] {
				if p.Head != g.Prods[0].Head {
					nts = append(nts, p.Head)
				}
			}
			if len(nts) > 0 {
				b := nts[rng.Intn(len(nts))]
				h := g.Prods[rng.Intn(len(g.Prods))].Head
				g.Prods = append(g.Prods, Prod{Head: h, Body: []Sym{Lit(fmt.Sprintf("x%d", step)), NT(b), Lit(fmt.Sprintf("y%d", step))}})
			}
		case 0: // wrap a terminal occurrence
			pi := rng.Intn(len(g.Prods))
			for k, s := range g.Prods[pi].Body {
				if s.Term && !s.Error {
					n := newNT()
					g.Prods[pi].Body[k] = NT(n)
					g.Prods = append(g.Prods, Prod{Head: n, Body: []Sym{s}})
					break
				}
			}
		case 1: // insert a nullable nonterminal
			pi := rng.Intn(len(g.Prods))
			n := newNT()
			pos := rng.Intn(len(g.Prods[pi].Body) + 1)
			nb := append([]Sym{}, g.Prods[pi].Body[:pos]...)
			nb = append(nb, NT(n))
			nb = append(nb, g.Prods[pi].Body[pos:]...)
			g.Prods[pi].Body = nb
			g.Prods = append(g.Prods, Prod{Head: n, Body: []Sym{Lit(fmt.Sprintf("o%d", fresh))}}, Prod{Head: n})
		case 2: // unit chain in front of a nonterminal occurrence
			pi := rng.Intn(len(g.Prods))
			for k, s := range g.Prods[pi].Body {
				if !s.Term {
					n1, n2 := newNT(), newNT()
					g.Prods[pi].Body[k] = NT(n1)
					g.Prods = append(g.Prods, Prod{Head: n1, Body: []Sym{NT(n2)}}, Prod{Head: n2, Body: []Sym{s}})
					break
				}
			}
		case 3: // a second context: an alternative with an extra leading terminal
			pi := rng.Intn(len(g.Prods))
			if len(g.Prods[pi].Body) > 0 {
				nb := append([]Sym{Lit(fmt.Sprintf("p%d", step))}, g.Prods[pi].Body...)
				g.Prods = append(g.Prods, Prod{Head: g.Prods[pi].Head, Body: nb})
			}
		case 4: // reorder (keep the first production first)
			rest := g.Prods[1:]
			rng.Shuffle(len(rest), func(i, j int) { rest[i], rest[j] = rest[j], rest[i] })
		}
	}
	// alternatives of one nonterminal are written together in the BNF: keep the production
	// numbering of the reference construction the same as gocc's (grouped by head, heads in
	// order of first appearance)
	var heads []string
	byHead := map[string][]Prod{}
	for _, p := range g.Prods {
		if _, ok := byHead[p.Head]; !ok {
			heads = append(heads, p.Head)
		}
		byHead[p.Head] = append(byHead[p.Head], p)
	}
	g.Prods = nil
	for _, h := range heads {
		g.Prods = append(g.Prods, byHead[h]...)
	}
	return g
}

// VariedGrammars draws conflict-free (or conflicting) variations of the corpus grammars.
func VariedGrammars(seed int64, want int, conflicting bool) []*SynGrammar {
	rng := rand.New(rand.NewSource(seed*15485863 + 3))
	bases := SynCorpus
	if conflicting {
		bases = ConflictCorpus[:5] // the sampled variations keep their five bases (G26 was added later)
	}
	var out []*SynGrammar
	for id := 0; len(out) < want && id < 2000; id++ {
		base := bases[rng.Intn(len(bases))]
		g := varyGrammar(rng, base, id)
		if !usesAllNTs(g) && base.Name != "G05" {
			continue
		}
		if hasDerivationCycle(g) {
			continue
		}
		r := BuildRefLR(g)
		if len(r.States) > 60 || r.Conflict != conflicting {
			continue
		}
		if conflicting {
			g.Flags = []string{"-a"}
		}
		g.Name = fmt.Sprintf("V%d_%s_%d", seed, base.Name, id)
		out = append(out, g)
	}
	return out
}
