package gv

import "fmt"

func init() {
	Register("C08", checkC08)
}

// atLexGrammar yields a lexer with 4 states (start + 3); the tables themselves are replaced.
const atLexGrammar = `
a : 'a' ;
b : 'b' ;
!c : 'c' ;
`

func checkC08(c *Ctx) {
	g, err := c.Generate("atlex", atLexGrammar)
	if err != nil || g.Exit != 0 {
		c.Inconclusive = append(c.Inconclusive, fmt.Sprintf("gocc failed on the abstract-table grammar: %v %+v", err, g))
		return
	}
	t := g.Target("lexer", "genlexer/at.go")
	maxN := 3
	if !c.Quick() {
		maxN = 5
	}
	var jobs []Job
	for n := 0; n <= maxN; n++ {
		jobs = append(jobs, Job{
			Name:     fmt.Sprintf("scan-step N=%d", n),
			Target:   t,
			Run:      SymRun{Harness: "VerifC08Step", Params: map[string]int{"N": n}, LoopBound: 16, LoopBounds: map[string]int{"Scan": n + 3}},
			Bounds:   fmt.Sprintf("every source of %d bytes, every start offset on the decode chain, every lexer with <= 4 states (abstract tables)", n),
			Abstract: true,
		})
	}
	// concrete corpus lexers: same harness on the real generated tables
	for _, lg := range LexCorpus {
		gg, err := c.Generate("lex_"+lg.Name, lg.Text)
		if err != nil || gg.Exit != 0 {
			c.Inconclusive = append(c.Inconclusive, fmt.Sprintf("gocc failed on corpus grammar %s: %v", lg.Name, err))
			continue
		}
		ct := gg.Target("lexer", "genlexer/at.go")
		for n := 1; n <= maxN; n++ {
			jobs = append(jobs, Job{
				Name:   fmt.Sprintf("scan-step %s N=%d", lg.Name, n),
				Target: ct,
				Run:    SymRun{Harness: "VerifC08Step", Params: map[string]int{"N": n, "ABSTRACT": 0}, LoopBound: 16, LoopBounds: map[string]int{"Scan": n + 3}},
				RequiredCovers: []string{"end"},
				Bounds: fmt.Sprintf("corpus lexer %s (real tables), every source of %d bytes, every start offset", lg.Name, n),
			})
		}
	}
	c.BoundsText = append(c.BoundsText, fmt.Sprintf("generated Lexer.Scan (from the current template) on abstract tables: TransTab is an uninterpreted function, ActTab rows arbitrary under the generator's row contract; sources of 0..%d arbitrary bytes (ill-formed UTF-8 included); one Scan from every reachable (offset,line,column); Scan loop unwound N+3 times with unwinding assertion", maxN))
	c.RunJobs(jobs, 4)
}

// LexGrammar is one lexical corpus grammar (text form).
type LexGrammar struct {
	Name, Text, Why string
}

var LexCorpus = []LexGrammar{
	{"L07", "x : 'a' ;\n!y : 'a' 'b' ;\nz : 'a' 'b' 'c' 'd' ;\n", "accept followed by ignore, and a longer token through the ignore state"},
	{"L04", "!ws : ' ' | '\\t' | '\\n' | '\\r' ;\nid : 'a'-'z' {'a'-'z'} ;\n!comment : '/' '/' {.} '\\n' ;\ndiv : '/' ;\n", "white space, line comments and a token sharing their prefix"},
	{"L05", "u : '\\u00e9' | '\\u20ac' | '\\U0001F600' ;\nw : '\\u0100'-'\\uffff' 'x' ;\n!nl : '\\n' ;\n", "multi-byte runes, ranges over the BMP, newline ignored"},
}
