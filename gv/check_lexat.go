package gv

import "fmt"

func init() {
	Register("C08", checkC08)
}

// atLexGrammar yields a lexer with 4 states (start + 3); the tables themselves are replaced.
const atLexGrammar = `
a : 'a' ;
b : 'b' ;
!c : 'c' ;
`

func checkC08(c *Ctx) {
	g, err := c.Generate("atlex", atLexGrammar)
	if err != nil || g.Exit != 0 {
		c.Inconclusive = append(c.Inconclusive, fmt.Sprintf("gocc failed on the abstract-table grammar: %v %+v", err, g))
		return
	}
	t := g.Target("lexer", "genlexer/at.go")
	maxN := 3
	if !c.Quick() {
		maxN = 5
	}
	var jobs []Job
	for n := 0; n <= maxN; n++ {
		jobs = append(jobs, Job{
			Name:     fmt.Sprintf("scan-step N=%d", n),
			Target:   t,
			Run:      SymRun{Harness: "VerifC08Step", Params: map[string]int{"N": n}, LoopBound: 16, LoopBounds: map[string]int{"Scan": n + 3}},
			Bounds:   fmt.Sprintf("every source of %d bytes, every start offset on the decode chain, every lexer with <= 4 states (abstract tables)", n),
			Abstract: true,
		})
	}
	if !c.Quick() {
		// more automaton states (6): every lexer with <= 6 states
		if g6, err := c.Generate("atlex6", "a : 'a' ;\nb : 'b' ;\n!c : 'c' ;\nd : 'd' ;\n!e : 'e' ;\n"); err == nil && g6.Exit == 0 {
			t6 := g6.Target("lexer", "genlexer/at.go")
			for n := 1; n <= 4; n++ {
				jobs = append(jobs, Job{
					Name:     fmt.Sprintf("scan-step 6-states N=%d", n),
					Target:   t6,
					Run:      SymRun{Harness: "VerifC08Step", Params: map[string]int{"N": n}, LoopBound: 16, LoopBounds: map[string]int{"Scan": n + 3}},
					Bounds:   fmt.Sprintf("every source of %d bytes, every start offset on the decode chain, every lexer with <= 6 states (abstract tables)", n),
					Abstract: true,
				})
			}
		}
	}
	// concrete corpus lexers: same harness on the real generated tables
	for _, lg := range LexCorpus {
		gg, err := c.Generate("lex_"+lg.Name, lg.Text)
		if err != nil || gg.Exit != 0 {
			c.Inconclusive = append(c.Inconclusive, fmt.Sprintf("gocc failed on corpus grammar %s: %v", lg.Name, err))
			continue
		}
		ct := gg.Target("lexer", "genlexer/at.go")
		for n := 1; n <= maxN; n++ {
			jobs = append(jobs, Job{
				Name:           fmt.Sprintf("scan-step %s N=%d", lg.Name, n),
				Target:         ct,
				Run:            SymRun{Harness: "VerifC08Step", Params: map[string]int{"N": n, "ABSTRACT": 0}, LoopBound: 16, LoopBounds: map[string]int{"Scan": n + 3}},
				RequiredCovers: []string{"end"},
				Bounds:         fmt.Sprintf("corpus lexer %s (real tables), every source of %d bytes, every start offset", lg.Name, n),
			})
		}
	}
	c.BoundsText = append(c.BoundsText, fmt.Sprintf("generated Lexer.Scan (from the current template) on abstract tables: TransTab is an uninterpreted function, ActTab rows arbitrary under the generator's row contract; sources of 0..%d arbitrary bytes (ill-formed UTF-8 included); one Scan from every reachable (offset,line,column); Scan loop unwound N+3 times with unwinding assertion", maxN))
	c.RunJobs(jobs, 4)
}

// LexGrammar is one lexical corpus grammar (text form).
type LexGrammar struct {
	Name, Text, Why string
}

var LexCorpus = []LexGrammar{
	{"L07", "x : 'a' ;\n!y : 'a' 'b' ;\nz : 'a' 'b' 'c' 'd' ;\n", "accept followed by ignore, and a longer token through the ignore state"},
	{"L04", "!ws : ' ' | '\\t' | '\\n' | '\\r' ;\nid : 'a'-'z' {'a'-'z'} ;\n!comment : '/' '/' {.} '\\n' ;\ndiv : '/' ;\n", "white space, line comments and a token sharing their prefix"},
	{"L05", "u : '\\u00e9' | '\\u20ac' | '\\U0001F600' ;\nw : '\\u0100'-'\\uffff' 'x' ;\n!nl : '\\n' ;\n", "multi-byte runes, ranges over the BMP, newline ignored"},
}

func init() {
	Register("C16", checkC16)
	Register("C17", checkC17)
}

func (c *Ctx) atLexTarget() *Target {
	g, err := c.Generate("atlex", atLexGrammar)
	if err != nil || g.Exit != 0 {
		c.Inconclusive = append(c.Inconclusive, fmt.Sprintf("gocc failed on the abstract-table grammar: %v", err))
		return nil
	}
	return g.Target("lexer", "genlexer/at.go")
}

func (c *Ctx) lexCorpusTargets() map[string]*Target {
	out := map[string]*Target{}
	for _, lg := range LexCorpus {
		gg, err := c.Generate("lex_"+lg.Name, lg.Text)
		if err != nil || gg.Exit != 0 {
			c.Inconclusive = append(c.Inconclusive, fmt.Sprintf("gocc failed on corpus grammar %s: %v", lg.Name, err))
			continue
		}
		out[lg.Name] = gg.Target("lexer", "genlexer/at.go")
	}
	return out
}

func (c *Ctx) lexResetJobs() []Job {
	var jobs []Job
	maxN := 3
	if !c.Quick() {
		maxN = 4 // N=5: the history job (4 Scan calls on 5 symbolic bytes) does not finish in 300 s
	}
	if t := c.atLexTarget(); t != nil {
		for n := 1; n <= maxN; n++ {
			jobs = append(jobs, Job{
				Name:     fmt.Sprintf("lexer-reset inductive N=%d", n),
				Target:   t,
				Abstract: true,
				Run:      SymRun{Harness: "VerifC16Reset", Params: map[string]int{"N": n, "K": 2, "INDUCTIVE": 1}, LoopBound: 16, LoopBounds: map[string]int{"Scan": n + 3}},
				Bounds:   fmt.Sprintf("abstract tables (<=4 states), every source of %d bytes, a lexer object with ARBITRARY pos/line/column, Reset, then 2 Scan calls against a fresh lexer", n),
			})
			jobs = append(jobs, Job{
				Name:     fmt.Sprintf("lexer-reset history N=%d", n),
				Target:   t,
				Abstract: true,
				Run:      SymRun{Harness: "VerifC16Reset", Params: map[string]int{"N": n, "K": 2, "INDUCTIVE": 0, "J": 2}, LoopBound: 16, LoopBounds: map[string]int{"Scan": n + 3}},
				Bounds:   fmt.Sprintf("abstract tables (<=4 states), every source of %d bytes, 2 Scan calls, Reset, then 2 Scan calls against a fresh lexer", n),
			})
		}
	}
	for name, t := range c.lexCorpusTargets() {
		jobs = append(jobs, Job{
			Name:   fmt.Sprintf("lexer-reset history %s N=%d", name, 2),
			Target: t,
			Run:    SymRun{Harness: "VerifC16Reset", Params: map[string]int{"N": 2, "K": 2, "ABSTRACT": 0, "INDUCTIVE": 0, "J": 1}, LoopBound: 16, LoopBounds: map[string]int{"Scan": 5}},
			Bounds: fmt.Sprintf("corpus lexer %s (real tables), every source of 2 bytes, one Scan, Reset, 2 Scan calls against a fresh lexer", name),
		})
	}
	return jobs
}

func (c *Ctx) parserReuseJobs() []Job {
	var jobs []Job
	maxN := 3
	if !c.Quick() {
		maxN = 5
	}
	gs := []*SynGrammar{SynCorpus[0], SynCorpus[1], RecoveryCorpus[0], RecoveryCorpus[2]}
	for _, g := range gs {
		t, err := c.parserTarget(g.WithRecordingActions(), true, append(parserHarness, "genparser/c07.go", "genparser/c16.go")...)
		if err != nil {
			c.Inconclusive = append(c.Inconclusive, err.Error())
			continue
		}
		for n := 0; n <= maxN; n++ {
			for _, sc := range [][2]int{{0, 100}, {1, 100}, {3, 100}, {2, 160}} {
				stale, capv := sc[0], sc[1]
				jobs = append(jobs, Job{
					Name:           fmt.Sprintf("parser-reuse %s N=%d stale=%d cap=%d", g.Name, n, stale, capv),
					Target:         t,
					Run:            SymRun{Harness: "VerifC16Parser", Params: map[string]int{"N": n, "STALE": stale, "CAP": capv}, LoopBound: 8*(n+1) + 16, ForkFuncs: []string{"Parse", "VerifC16Parser", "Error"}},
					Bounds:         fmt.Sprintf("grammar %s: parser object with %d arbitrary stale stack entries in a stack of capacity %d (160 = grown by an earlier deep input), arbitrary look-ahead and pos, versus a new parser, on every sequence of %d tokens", g.Name, stale, capv, n),
					RequiredCovers: []string{"end"},
				})
			}
		}
	}
	return jobs
}

func checkC16(c *Ctx) {
	jobs := append(c.lexResetJobs(), c.parserReuseJobs()...)
	c.BoundsText = append(c.BoundsText, "parser: inductive form: a Parser object whose stack holds ARBITRARY stale states/attributes (0, 1 or 3 entries) and arbitrary nextToken/pos, versus NewParser(), same Context, same token objects; compared: verdict, result, every action call (production, arguments, look-ahead position), error token, expected tokens; corpus tables incl. two recovery grammars")
	c.BoundsText = append(c.BoundsText, "lexer: inductive form of 'whatever happened before': a Lexer object on the source with ARBITRARY pos/line/column, then Reset(), compared token by token (type, literal, offset, line, column) with NewLexer on the same source; abstract tables cover every lexer with <= 4 states")
	c.RunJobs(jobs, 4)
}

func checkC17(c *Ctx) {
	var jobs []Job
	if t := c.atLexTarget(); t != nil {
		for n := 1; n <= 3; n++ {
			jobs = append(jobs, Job{
				Name:   fmt.Sprintf("lexer-writes N=%d", n),
				Target: t,
				Run:    SymRun{Harness: "VerifC17Scan", Params: map[string]int{"N": n, "K": 2}, LoopBound: 16, LoopBounds: map[string]int{"Scan": n + 3}},
				Bounds: fmt.Sprintf("abstract tables, every source of %d bytes: NewLexer, 2 Scan, Reset, Scan; every store checked", n),
			})
		}
	}
	for _, g := range []*SynGrammar{SynCorpus[0], SynCorpus[2], RecoveryCorpus[0]} {
		t, err := c.parserTarget(g, false, append(parserHarness, "genparser/c07.go", "genparser/c16.go")...)
		if err != nil {
			c.Inconclusive = append(c.Inconclusive, err.Error())
			continue
		}
		for n := 0; n <= 3; n++ {
			jobs = append(jobs, Job{
				Name:           fmt.Sprintf("parser-writes %s N=%d", g.Name, n),
				Target:         t,
				Run:            SymRun{Harness: "VerifC17Parser", Params: map[string]int{"N": n}, LoopBound: 8*(n+1) + 16, ForkFuncs: []string{"Parse", "VerifC17Parser", "Error"}, InitExtra: []string{"strconv"}},
				Bounds:         fmt.Sprintf("grammar %s: NewParser, Parse (incl. error construction and recovery), Error(), String(), DescribeExpected, DescribeToken, TokMap lookups, second Parse; every sequence of %d tokens; every store checked", g.Name, n),
				RequiredCovers: []string{"end"},
			})
		}
	}
	// -zip: the tables are filled by init() (executed natively, injected); Parse must still not write
	{
		g := *SynCorpus[0]
		g.Name = "G01zip"
		g.Flags = []string{"-zip"}
		t, err := c.parserTarget(&g, false, append(parserHarness, "genparser/c07.go", "genparser/c16.go", "genparser/dump.go")...)
		if err == nil {
			d, derr := c.nativeTables(t)
			if derr != nil {
				c.Inconclusive = append(c.Inconclusive, "G01 -zip: native table dump failed: "+derr.Error())
			} else {
				for n := 0; n <= 3; n++ {
					jobs = append(jobs, Job{
						Name:           fmt.Sprintf("parser-writes G01 -zip N=%d", n),
						Target:         t,
						Run:            SymRun{Harness: "VerifC17Parser", Params: map[string]int{"N": n}, LoopBound: 8*(n+1) + 16, ForkFuncs: []string{"Parse", "VerifC17Parser", "Error"}, InitExtra: []string{"strconv"}, SkipInitFuncs: func(p string) bool { return p == "gen/parser" }, Setup: injectTables(d)},
						Bounds:         fmt.Sprintf("grammar G01 generated with -zip (tables built by init natively and injected): every sequence of %d tokens; every store checked", n),
						RequiredCovers: []string{"end"},
					})
				}
			}
		} else {
			c.Inconclusive = append(c.Inconclusive, err.Error())
		}
	}
	c.BoundsText = append(c.BoundsText, "-zip: the generated init() functions are the only writers of actionTab/gotoTab (they are executed natively once, before any goroutine can use the package; Go runs package initialisation single-threaded); Parse on the injected tables performs no store to them")
	c.BoundsText = append(c.BoundsText, "non-interference: every store executed by NewLexer/Scan/Reset on abstract tables and symbolic input must target an object allocated by the calling goroutine's own calls (obligation: path condition AND 'target existed before the calls' is unsat); with no writes to shared state all shared accesses are reads, hence no data race for any interleaving and sequential results per goroutine")
	c.RunJobs(jobs, 4)
}
