package gv

import "strings"

// supportSrc is compiled into the package under test (build tag verif). Natively the
// nondeterministic values come from the replay file; the symbolic engine intercepts the
// verif* functions by name and never executes these bodies.
const supportSrc = `//go:build verif

package PKGNAME

import (
	"encoding/json"
	"fmt"
	"os"
	"reflect"
)

type verifReplayFile struct {
	Values map[string]int64            ` + "`json:\"values\"`" + `
	Params map[string]int              ` + "`json:\"params\"`" + `
	UF     map[string][]verifUFRow     ` + "`json:\"uf\"`" + `
}

type verifUFRow struct {
	Args []int64 ` + "`json:\"args\"`" + `
	Res  int64   ` + "`json:\"res\"`" + `
}

type verifAssumeFailed struct{ n int }

var (
	verifFile     verifReplayFile
	verifLoaded   bool
	verifCnt      = map[string]int{}
	VerifFailures []string
	VerifCovered  []string
	verifAssumes  int
)

func verifLoad() {
	if verifLoaded {
		return
	}
	verifLoaded = true
	p := os.Getenv("VERIF_REPLAY")
	if p == "" {
		return
	}
	b, err := os.ReadFile(p)
	if err != nil {
		panic(err)
	}
	if err := json.Unmarshal(b, &verifFile); err != nil {
		panic(err)
	}
}

func VerifResetReplay() {
	verifCnt = map[string]int{}
	VerifFailures = nil
	VerifCovered = nil
	verifAssumes = 0
}

func verifNext(name string) int64 {
	verifLoad()
	k := verifCnt[name]
	verifCnt[name] = k + 1
	return verifFile.Values[fmt.Sprintf("%s#%d", name, k)]
}

func verifNondetInt(name string) int     { return int(verifNext(name)) }
func verifNondetInt64(name string) int64 { return verifNext(name) }
func verifNondetInt32(name string) int32 { return int32(verifNext(name)) }
func verifNondetRune(name string) rune   { return rune(verifNext(name)) }
func verifNondetByte(name string) byte   { return byte(verifNext(name)) }
func verifNondetBool(name string) bool   { return verifNext(name) != 0 }

func verifParam(name string, def int) int {
	verifLoad()
	if v, ok := verifFile.Params[name]; ok {
		return v
	}
	return def
}

func verifAssume(c bool) {
	verifAssumes++
	if !c {
		panic(verifAssumeFailed{verifAssumes})
	}
}

func verifAssert(c bool, msg string) {
	if !c {
		VerifFailures = append(VerifFailures, msg)
		// symbolic runs continue under the assumption that the assertion held
		panic(verifAssertStop{msg})
	}
}

type verifAssertStop struct{ msg string }

func verifCover(msg string) { VerifCovered = append(VerifCovered, msg) }

func verifUF2(name string, a, b int) int {
	verifLoad()
	for _, r := range verifFile.UF[name] {
		if len(r.Args) == 2 && r.Args[0] == int64(a) && r.Args[1] == int64(b) {
			return int(r.Res)
		}
	}
	return 0
}

func verifUF1(name string, a int) int {
	verifLoad()
	for _, r := range verifFile.UF[name] {
		if len(r.Args) == 1 && r.Args[0] == int64(a) {
			return int(r.Res)
		}
	}
	return 0
}

func verifTrackWrites(on bool) {}

// verifMapOrderOne / verifDeepEqual: devices of the symbolic engine (C11 table writers)
func verifMapOrderOne(on bool) {}

func verifDeepEqual(a, b interface{}) bool { return reflect.DeepEqual(a, b) }

// verifSymbolic is true only inside the symbolic engine
func verifSymbolic() bool { return false }

// VerifRunHarness runs one registered harness and reports what happened.
func VerifRunHarness(name string) (result map[string]interface{}) {
	result = map[string]interface{}{"harness": name}
	fn, ok := verifHarnesses[name]
	if !ok {
		result["error"] = "no such harness"
		return
	}
	VerifResetReplay()
	defer func() {
		if r := recover(); r != nil {
			switch x := r.(type) {
			case verifAssumeFailed:
				result["assume_failed"] = x.n
			case verifAssertStop:
			default:
				result["panic"] = fmt.Sprint(r)
			}
		}
		result["failures"] = VerifFailures
		result["covered"] = VerifCovered
	}()
	fn()
	return
}
`

const testSrc = `//go:build verif

package PKGNAME

import (
	"encoding/json"
	"fmt"
	"os"
	"testing"
)

func TestVerifReplay(t *testing.T) {
	res := VerifRunHarness(os.Getenv("VERIF_HARNESS"))
	b, _ := json.Marshal(res)
	fmt.Printf("VERIF-RESULT: %s\n", b)
}
`

func SupportSource(pkg string) []byte {
	return []byte(strings.ReplaceAll(supportSrc, "PKGNAME", pkg))
}

func TestSource(pkg string) []byte {
	return []byte(strings.ReplaceAll(testSrc, "PKGNAME", pkg))
}
