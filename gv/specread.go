package gv

import (
	"fmt"
	"os"
	"strings"
	"unicode"
)

// ReadSpecGrammar reads spec/gocc2.ebnf with a reader of /verif's own (not gocc's front end):
// productions `Head : alt | alt ;` over identifiers and string literals; `<< ... >>` actions,
// /* */ and // comments are skipped. Lower-case identifiers and string literals are terminals
// ("error" and "empty" are ordinary literal terminals here), capitalised identifiers are
// nonterminals.
func ReadSpecGrammar(path string) (*SynGrammar, error) {
	b, err := os.ReadFile(path)
	if err != nil {
		return nil, err
	}
	src := string(b)
	var toks []string
	for i := 0; i < len(src); {
		c := src[i]
		switch {
		case c == ' ' || c == '\t' || c == '\n' || c == '\r':
			i++
		case strings.HasPrefix(src[i:], "/*"):
			j := strings.Index(src[i+2:], "*/")
			if j < 0 {
				return nil, fmt.Errorf("unterminated comment")
			}
			i += j + 4
		case strings.HasPrefix(src[i:], "//"):
			j := strings.IndexByte(src[i:], '\n')
			if j < 0 {
				j = len(src) - i
			}
			i += j
		case strings.HasPrefix(src[i:], "<<"):
			j := strings.Index(src[i:], ">>")
			if j < 0 {
				return nil, fmt.Errorf("unterminated action")
			}
			if len(toks) == 0 || toks[len(toks)-1] == ";" {
				// file header: not part of any production
			} else {
				toks = append(toks, "<<>>")
			}
			i += j + 2
		case c == '"':
			j := strings.IndexByte(src[i+1:], '"')
			toks = append(toks, src[i:i+j+2])
			i += j + 2
		case c == ':' || c == '|' || c == ';':
			toks = append(toks, string(c))
			i++
		case unicode.IsLetter(rune(c)) || c == '_':
			j := i
			for j < len(src) && (unicode.IsLetter(rune(src[j])) || unicode.IsDigit(rune(src[j])) || src[j] == '_') {
				j++
			}
			toks = append(toks, src[i:j])
			i = j
		default:
			return nil, fmt.Errorf("unexpected character %q in %s", c, path)
		}
	}
	g := &SynGrammar{Name: "spec", Why: "spec/gocc2.ebnf as read by /verif"}
	for i := 0; i < len(toks); {
		head := toks[i]
		if i+1 >= len(toks) || toks[i+1] != ":" {
			return nil, fmt.Errorf("expected ':' after %q", head)
		}
		i += 2
		var body []Sym
		flush := func() {
			g.Prods = append(g.Prods, Prod{Head: head, Body: body})
			body = nil
		}
		for ; i < len(toks) && toks[i] != ";"; i++ {
			t := toks[i]
			switch {
			case t == "|":
				flush()
			case t == "<<>>":
			case t[0] == '"':
				body = append(body, Lit(t[1:len(t)-1]))
			case unicode.IsUpper(rune(t[0])):
				body = append(body, NT(t))
			default:
				body = append(body, Tok(t))
			}
		}
		flush()
		i++
	}
	return g, nil
}
