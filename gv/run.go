// Package gv is the check driver: it loads the code under test with harness overlays,
// runs the symbolic engine, discharges the obligations, replays models natively and
// writes evidence.
package gv

import (
	"bytes"
	"encoding/json"
	"fmt"
	"os"
	"os/exec"
	"path/filepath"
	"regexp"
	"sort"
	"strings"
	"time"

	"golang.org/x/tools/go/ssa"

	"verif/gosym/engine"
	"verif/gosym/solver"
)

const VerifRoot = "/verif"

// Target is one package under test with the harness files injected into it.
type Target struct {
	ModDir   string   // module root used as working directory (e.g. /repo)
	PkgDir   string   // absolute directory of the package
	PkgPath  string   // import path
	PkgName  string   // package name
	Harness  []string // real harness files (under /verif/harness/...)
	ExtraEnv []string
	// limits of native replays (defaults: 120 s, no memory limit)
	ReplayTimeoutS int
	ReplayMemKB    int
}

func GoEnv() []string {
	return []string{"GOFLAGS=-mod=mod", "GOPROXY=off", "GOTOOLCHAIN=go1.24.0+auto"}
}

func (t *Target) overlayMap() map[string]string {
	m := map[string]string{}
	for _, h := range t.Harness {
		m[filepath.Join(t.PkgDir, "zz_verif_"+filepath.Base(h))] = h
	}
	return m
}

func (t *Target) overlayBytes() (map[string][]byte, error) {
	ov := map[string][]byte{}
	for v, r := range t.overlayMap() {
		b, err := os.ReadFile(r)
		if err != nil {
			return nil, err
		}
		ov[v] = b
	}
	ov[filepath.Join(t.PkgDir, "zz_verif_support.go")] = SupportSource(t.PkgName)
	return ov, nil
}

// Load builds the SSA program for the target.
func (t *Target) Load() (*ssa.Program, *ssa.Package, error) {
	ov, err := t.overlayBytes()
	if err != nil {
		return nil, nil, err
	}
	prog, pkgs, err := engine.LoadProgram(engine.LoadCfg{Dir: t.ModDir, Patterns: []string{t.PkgPath}, Overlay: ov, Tags: "verif", Env: append(GoEnv(), t.ExtraEnv...)})
	if err != nil {
		return nil, nil, err
	}
	for _, p := range pkgs {
		if p.PkgPath == t.PkgPath {
			return prog, prog.Package(p.Types), nil
		}
	}
	return nil, nil, fmt.Errorf("package %s not loaded", t.PkgPath)
}

// SymRun is one symbolic execution of a harness.
type SymRun struct {
	Harness          string
	Params           map[string]int
	LoopBound        int
	LoopBounds       map[string]int
	RecBound         int
	Concrete         map[string]int64 // fix all nondets (translator validation)
	Prune            bool
	SymbolicMapOrder bool
	ConcreteFmt      bool
	ForkPkgs         []string
	ForkFuncs        []string
	InitPkgs         func(string) bool
	InitExtra        []string
	SkipInitFuncs    func(string) bool
	Intrinsics       map[string]engine.Intrinsic
	Setup            func(e *engine.Engine)
}

type SymResult struct {
	Engine              *engine.Engine
	Final               *engine.St
	Obs                 []engine.Obligation
	Outcomes            []engine.Outcome
	ExecS               float64
	FeasCalls, FeasHits int
	FeasSecs            float64
	SolveS              float64
}

func defaultInit(pkgPath string, extra []string) func(string) bool {
	return func(p string) bool {
		if p == pkgPath || p == "unicode" || p == "unicode/utf8" || strings.HasPrefix(p, "gen/") {
			return true
		}
		for _, x := range extra {
			if x == p {
				return true
			}
		}
		return false
	}
}

var sharedSession *solver.Session

func Session() *solver.Session {
	if sharedSession == nil {
		s, err := solver.NewSession()
		if err == nil {
			sharedSession = s
		}
	}
	return sharedSession
}

// Exec runs the harness symbolically (no solving of obligations yet).
func Exec(prog *ssa.Program, pkg *ssa.Package, modPrefix string, r SymRun) (*SymResult, error) {
	fn := pkg.Func(r.Harness)
	if fn == nil {
		return nil, fmt.Errorf("harness %s not found in %s", r.Harness, pkg.Pkg.Path())
	}
	cfg := engine.Config{Trace: os.Getenv("GV_TRACE") != "", LoopBound: r.LoopBound, LoopBounds: r.LoopBounds, RecBound: r.RecBound, PruneBranch: r.Prune, Intrinsics: r.Intrinsics}
	cfg.InitPkgs = r.InitPkgs
	cfg.SymbolicMapOrder = r.SymbolicMapOrder
	cfg.ConcreteFmt = r.ConcreteFmt
	cfg.ForkPkgs = r.ForkPkgs
	cfg.SkipInitFuncs = r.SkipInitFuncs
	cfg.ForkFuncs = map[string]bool{}
	for _, f := range r.ForkFuncs {
		cfg.ForkFuncs[f] = true
	}
	if cfg.InitPkgs == nil {
		cfg.InitPkgs = defaultInit(pkg.Pkg.Path(), r.InitExtra)
	}
	if r.Concrete == nil {
		cfg.Session = solver.NewSessionMust()
		cfg.Session.Incremental = true
		defer cfg.Session.Close()
	}
	e := engine.New(prog, cfg)
	e.Params = r.Params
	e.Concrete = r.Concrete
	if r.Setup != nil {
		r.Setup(e)
	}
	t0 := time.Now()
	final, err := e.Run(fn)
	res := &SymResult{Engine: e, Final: final, ExecS: time.Since(t0).Seconds()}
	if cfg.Session != nil {
		res.FeasCalls, res.FeasHits, res.FeasSecs = cfg.Session.Calls+cfg.Session.IncCalls, cfg.Session.Hits, cfg.Session.Secs
	}
	if err != nil {
		return res, err
	}
	res.Obs = e.Obligations(r.Harness + "_")
	return res, nil
}

// Solve discharges all obligations of a run.
func (res *SymResult) Solve(be solver.Backend, dir string, timeoutS, par int) {
	t0 := time.Now()
	res.Outcomes = res.Engine.Discharge(res.Obs, be, dir, timeoutS, par)
	res.SolveS = time.Since(t0).Seconds()
}

// ---- native replay ------------------------------------------------------------------

type ReplayFile struct {
	Check   string                    `json:"check"`
	Job     string                    `json:"job"`
	Harness string                    `json:"harness"`
	Target  string                    `json:"target"`
	Values  map[string]int64          `json:"values"`
	Params  map[string]int            `json:"params"`
	UF      map[string][]engine.UFRow `json:"uf,omitempty"`
	Note    string                    `json:"note,omitempty"`
}

type NativeResult struct {
	Harness      string   `json:"harness"`
	Failures     []string `json:"failures"`
	Covered      []string `json:"covered"`
	Panic        string   `json:"panic"`
	AssumeFailed int      `json:"assume_failed"`
	Error        string   `json:"error"`
	Raw          string   `json:"-"`
	// Killed: the run produced no result because it hit the time or memory limit
	Killed bool `json:"-"`
}

var resRe = regexp.MustCompile(`(?m)^VERIF-RESULT: (.*)$`)

// Replay runs the natively compiled harness on a replay file.
func (t *Target) Replay(harness, replayPath string) (*NativeResult, error) {
	tmp, err := os.MkdirTemp("", "gvreplay")
	if err != nil {
		return nil, err
	}
	defer os.RemoveAll(tmp)
	ovm := t.overlayMap()
	sup := filepath.Join(tmp, "support.go")
	tst := filepath.Join(tmp, "replay_test.go")
	os.WriteFile(sup, SupportSource(t.PkgName), 0o644)
	os.WriteFile(tst, TestSource(t.PkgName), 0o644)
	ovm[filepath.Join(t.PkgDir, "zz_verif_support.go")] = sup
	ovm[filepath.Join(t.PkgDir, "zz_verif_replay_test.go")] = tst
	ovj, _ := json.Marshal(map[string]interface{}{"Replace": ovm})
	ovf := filepath.Join(tmp, "overlay.json")
	os.WriteFile(ovf, ovj, 0o644)
	cmd := exec.Command("go", "test", "-tags", "verif", "-vet=off", "-count=1", "-overlay", ovf, "-run", "^TestVerifReplay$", "-v", t.PkgPath)
	cmd.Dir = t.ModDir
	cmd.Env = append(append(os.Environ(), GoEnv()...), t.ExtraEnv...)
	cmd.Env = append(cmd.Env, "VERIF_REPLAY="+replayPath, "VERIF_HARNESS="+harness)
	var out bytes.Buffer
	cmd.Stdout = &out
	cmd.Stderr = &out
	runErr := cmd.Run()
	m := resRe.FindStringSubmatch(out.String())
	if m == nil {
		nr := &NativeResult{Raw: out.String()}
		if ee, ok := runErr.(*exec.ExitError); ok && (ee.ExitCode() == 124 || ee.ExitCode() == 137 || strings.Contains(out.String(), "out of memory") || strings.Contains(out.String(), "cannot allocate memory")) {
			nr.Killed = true
		}
		raw := out.String()
		if os.Getenv("GV_DEBUG_NATIVE") != "" {
			fmt.Fprintf(os.Stderr, "NATIVE runErr=%v\n%s\n", runErr, raw[:min(len(raw), 1500)])
		}
		if len(raw) > 4000 {
			raw = raw[:4000] + " ..."
		}
		return nr, fmt.Errorf("replay produced no result:\n%s", raw)
	}
	var nr NativeResult
	if err := json.Unmarshal([]byte(m[1]), &nr); err != nil {
		return nil, err
	}
	nr.Raw = out.String()
	return &nr, nil
}

func WriteReplay(path string, rf ReplayFile) error {
	b, _ := json.MarshalIndent(rf, "", " ")
	os.MkdirAll(filepath.Dir(path), 0o755)
	return os.WriteFile(path, b, 0o644)
}

func SortedKeys(m map[string]int) []string {
	var ks []string
	for k := range m {
		ks = append(ks, k)
	}
	sort.Strings(ks)
	return ks
}

// BuildReplayBinary compiles the package's test binary with harness, support and replay test.
func (t *Target) BuildReplayBinary(bin, tmp string) error {
	// builds may run concurrently: every build gets its own directory for the overlay files
	tmp, err := os.MkdirTemp(tmp, "build")
	if err != nil {
		return err
	}
	ovm := t.overlayMap()
	sup := filepath.Join(tmp, "support_"+t.PkgName+".go")
	tst := filepath.Join(tmp, "replay_"+t.PkgName+"_test.go")
	os.WriteFile(sup, SupportSource(t.PkgName), 0o644)
	os.WriteFile(tst, TestSource(t.PkgName), 0o644)
	ovm[filepath.Join(t.PkgDir, "zz_verif_support.go")] = sup
	ovm[filepath.Join(t.PkgDir, "zz_verif_replay_test.go")] = tst
	ovj, _ := json.Marshal(map[string]interface{}{"Replace": ovm})
	ovf := filepath.Join(tmp, "overlay_"+t.PkgName+".json")
	os.WriteFile(ovf, ovj, 0o644)
	cmd := exec.Command("go", "test", "-c", "-o", bin, "-tags", "verif", "-vet=off", "-overlay", ovf, t.PkgPath)
	cmd.Dir = t.ModDir
	cmd.Env = append(append(os.Environ(), GoEnv()...), t.ExtraEnv...)
	out, err := cmd.CombinedOutput()
	if err != nil {
		return fmt.Errorf("building native replay binary: %v\n%s", err, out)
	}
	return nil
}

// RunReplayBinary runs one harness natively on a replay file.
func (t *Target) RunReplayBinary(bin, harness, replayPath string) (*NativeResult, error) {
	tmo := 120
	if t.ReplayTimeoutS > 0 {
		tmo = t.ReplayTimeoutS
	}
	cmd := exec.Command("timeout", fmt.Sprint(tmo), bin, "-test.run", "^TestVerifReplay$", "-test.v")
	if t.ReplayMemKB > 0 {
		cmd = exec.Command("sh", "-c", fmt.Sprintf("ulimit -v %d; exec timeout %d %s -test.run '^TestVerifReplay$' -test.v", t.ReplayMemKB, tmo, bin))
	}
	cmd.Dir = t.PkgDir
	// harnesses that need files (C14 pipeline) create them under TMPDIR; it goes away with the run
	td, _ := os.MkdirTemp(filepath.Dir(bin), "run")
	defer os.RemoveAll(td)
	cmd.Env = append(os.Environ(), "VERIF_REPLAY="+replayPath, "VERIF_HARNESS="+harness, "TMPDIR="+td)
	var out bytes.Buffer
	cmd.Stdout = &out
	cmd.Stderr = &out
	runErr := cmd.Run()
	m := resRe.FindStringSubmatch(out.String())
	if m == nil {
		nr := &NativeResult{Raw: out.String()}
		if ee, ok := runErr.(*exec.ExitError); ok && (ee.ExitCode() == 124 || ee.ExitCode() == 137 || strings.Contains(out.String(), "out of memory") || strings.Contains(out.String(), "cannot allocate memory")) {
			nr.Killed = true
		}
		raw := out.String()
		if len(raw) > 4000 {
			raw = raw[:4000] + " ..."
		}
		return nr, fmt.Errorf("replay produced no result:\n%s", raw)
	}
	var nr NativeResult
	if err := json.Unmarshal([]byte(m[1]), &nr); err != nil {
		return nil, err
	}
	nr.Raw = out.String()
	return &nr, nil
}
