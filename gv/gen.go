package gv

import (
	"fmt"
	"os"
	"os/exec"
	"path/filepath"
	"strings"
	"sync"
)

// Generated code: gocc is built from /repo's working tree on every run and executed on a
// grammar; the emitted packages live in a scratch module and are loaded like any other target.

var (
	goccOnce sync.Once
	goccBin  string
	goccErr  error
)

// GoccBinary builds gocc from /repo (once per process) into the scratch directory.
func (c *Ctx) GoccBinary() (string, error) {
	goccOnce.Do(func() {
		bin := filepath.Join(c.Scratch, "gocc")
		cmd := exec.Command("go", "build", "-o", bin, ".")
		cmd.Dir = RepoRoot
		cmd.Env = append(os.Environ(), GoEnv()...)
		out, err := cmd.CombinedOutput()
		if err != nil {
			goccErr = fmt.Errorf("building gocc from /repo: %v\n%s", err, out)
			return
		}
		goccBin = bin
	})
	return goccBin, goccErr
}

// GenResult describes one gocc run.
type GenResult struct {
	Dir    string
	Exit   int
	Output string
}

// Generate runs gocc on the grammar text into a fresh scratch module named "gen".
func (c *Ctx) Generate(name, grammar string, flags ...string) (*GenResult, error) {
	bin, err := c.GoccBinary()
	if err != nil {
		return nil, err
	}
	dir := filepath.Join(c.Scratch, "gen_"+sanitize(name))
	os.RemoveAll(dir)
	if err := os.MkdirAll(dir, 0o755); err != nil {
		return nil, err
	}
	os.WriteFile(filepath.Join(dir, "go.mod"), []byte("module gen\n\ngo 1.24\n"), 0o644)
	ext := ".bnf"
	if strings.HasPrefix(grammar, "<!--md-->") {
		ext = ".md"
	}
	gf := filepath.Join(dir, "grammar"+ext)
	os.WriteFile(gf, []byte(grammar), 0o644)
	args := append([]string{"-o", dir, "-p", "gen"}, flags...)
	args = append(args, gf)
	// gocc is run under a time and address-space limit: a generator that does not terminate (or
	// eats all memory) on some grammar must not take the check down with it
	shArgs := []string{"-c", "ulimit -v 6000000; exec timeout 120 \"$0\" \"$@\"", bin}
	cmd := exec.Command("sh", append(shArgs, args...)...)
	cmd.Dir = dir
	out, err := cmd.CombinedOutput()
	res := &GenResult{Dir: dir, Output: string(out)}
	if err != nil {
		if ee, ok := err.(*exec.ExitError); ok {
			res.Exit = ee.ExitCode()
		} else {
			return res, err
		}
	}
	return res, nil
}

// GenTarget returns the target for one generated package with harness files injected.
func (g *GenResult) Target(pkg string, harness ...string) *Target {
	t := &Target{ModDir: g.Dir, PkgDir: filepath.Join(g.Dir, pkg), PkgPath: "gen/" + pkg, PkgName: filepath.Base(pkg)}
	for _, h := range harness {
		t.Harness = append(t.Harness, VerifRoot+"/harness/"+h)
	}
	return t
}
