package gv

import (
	"fmt"
	"go/ast"
	goparser "go/parser"
	gotoken "go/token"
	"os"
	"path/filepath"
	"strconv"
	"strings"
)

func init() {
	Register("C15", checkC15)
	Register("C14", checkC14)
}

// shippedProductions extracts (head, body) of every entry of ProductionsTable in
// internal/frontend/parser/tables.go from its String field ("Head : sym sym << action >> ;").
func shippedProductions() ([][]string, error) {
	fset := gotoken.NewFileSet()
	f, err := goparser.ParseFile(fset, "/repo/internal/frontend/parser/tables.go", nil, 0)
	if err != nil {
		return nil, err
	}
	var out [][]string
	ast.Inspect(f, func(n ast.Node) bool {
		vs, ok := n.(*ast.ValueSpec)
		if !ok || len(vs.Names) != 1 || vs.Names[0].Name != "ProductionsTable" || len(vs.Values) != 1 {
			return true
		}
		cl, ok := vs.Values[0].(*ast.CompositeLit)
		if !ok {
			return true
		}
		for _, el := range cl.Elts {
			ecl, ok := el.(*ast.CompositeLit)
			if !ok || len(ecl.Elts) == 0 {
				continue
			}
			lit, ok := ecl.Elts[0].(*ast.BasicLit)
			if !ok {
				continue
			}
			s, _ := strconv.Unquote(lit.Value)
			if i := strings.Index(s, "<<"); i >= 0 {
				s = strings.TrimSpace(s[:i]) // the terminating " ;" follows the action
			} else {
				s = strings.TrimSuffix(strings.TrimSpace(s), ";")
			}
			fields := strings.Fields(s)
			// Head : body...
			if len(fields) < 2 || fields[1] != ":" {
				continue
			}
			out = append(out, append([]string{fields[0]}, fields[2:]...))
		}
		return false
	})
	return out, nil
}

func (c *Ctx) frontParserTarget() (*Target, *RefLR, error) {
	g, err := ReadSpecGrammar("/repo/spec/gocc2.ebnf")
	if err != nil {
		return nil, nil, err
	}
	r := BuildRefLR(g)
	if r.Conflict {
		return nil, nil, fmt.Errorf("the reference LR(1) automaton of spec/gocc2.ebnf has conflicts")
	}
	shipped, err := shippedProductions()
	if err != nil {
		return nil, nil, err
	}
	// map shipped entry -> spec production (1-based; entry 0 is S! : Grammar)
	used := map[int]bool{}
	var pm []int
	for i, sp := range shipped {
		idx := -1
		if i == 0 {
			idx = 0
		} else {
			for k, p := range g.Prods {
				if p.Head != sp[0] || len(p.Body) != len(sp)-1 || used[k+1] {
					continue
				}
				same := true
				for j, s := range p.Body {
					if s.Name != sp[j+1] {
						same = false
					}
				}
				if same {
					idx = k + 1
					used[idx] = true
					break
				}
			}
		}
		pm = append(pm, idx)
	}
	dir, _ := os.MkdirTemp(c.Scratch, "frontdata")
	var b strings.Builder
	b.WriteString("//go:build verif\n\npackage parser\n\n// shipped ProductionsTable entry -> production of spec/gocc2.ebnf (same head and body)\nvar verifProdMap = []int{")
	for _, x := range pm {
		fmt.Fprintf(&b, "%d, ", x)
	}
	b.WriteString("}\n")
	f1 := filepath.Join(dir, "prodmap.go")
	os.WriteFile(f1, []byte(b.String()), 0o644)
	f2 := filepath.Join(dir, "specdata.go")
	os.WriteFile(f2, []byte(strings.Replace(g.HarnessData(true), "var verifProds = []verifProd{", "var verifProds = []verifProd{", 1)), 0o644)
	f3 := filepath.Join(dir, "specref.go")
	os.WriteFile(f3, []byte(r.HarnessTables()), 0o644)
	t := repoTarget("internal/frontend/parser", "parser", "frontparser/c15.go")
	t.Harness = append(t.Harness, f1, f2, f3)
	return t, r, nil
}

func (c *Ctx) frontJobs(maxN int) []Job {
	t, r, err := c.frontParserTarget()
	if err != nil {
		c.Inconclusive = append(c.Inconclusive, err.Error())
		return nil
	}
	c.Extra["spec_grammar"] = fmt.Sprintf("%d productions, %d terminals, reference LR(1) automaton with %d states", len(r.Prods)-1, len(r.Terms), len(r.States))
	var jobs []Job
	for n := 0; n <= maxN; n++ {
		jobs = append(jobs, Job{
			Name:           fmt.Sprintf("front-end lockstep N=%d", n),
			Target:         t,
			Run:            SymRun{Harness: "VerifC15Lockstep", Params: map[string]int{"N": n, "STEPS": 12*(n+1) + 8}, LoopBound: 64, LoopBounds: map[string]int{"Parse": 12*(n+1) + 16, "verifRefRun": 12*(n+1) + 16}, ForkFuncs: []string{"Parse", "VerifC15Lockstep", "verifRefRun", "Error", "newError", "popNonRecoveryStates", "firstRecoveryState"}, InitExtra: []string{RepoMod + "/internal/frontend/token"}},
			Bounds:         fmt.Sprintf("every sequence of %d front-end tokens over the %d terminals of spec/gocc2.ebnf", n, len(r.Terms)),
			RequiredCovers: []string{"end"},
		})
	}
	return jobs
}

func checkC15(c *Ctx) {
	maxN := 4
	if !c.Quick() {
		maxN = 5
	}
	jobs := c.frontJobs(maxN)
	c.BoundsText = append(c.BoundsText, fmt.Sprintf("the real front-end Parser.Parse with the checked-in ActionTable/GotoTable/ProductionsTable (reduce functions replaced by recording stubs) on every token sequence of length 0..%d, in lock-step with the canonical LR(1) machine that /verif builds from spec/gocc2.ebnf (read by /verif's own reader on every run): accept iff sentence; every reduction is by the documented production with the same head and body (shipped entries matched to spec productions by head and body: a bijection)", maxN))
	c.RunJobs(filterJobs(jobs), 4)
}

func checkC14(c *Ctx) {
	maxN := 4
	if !c.Quick() {
		maxN = 5
	}
	jobs := c.frontJobs(maxN)
	c.BoundsText = append(c.BoundsText, fmt.Sprintf("token level: every sequence of 0..%d front-end tokens that is NOT a sentence of spec/gocc2.ebnf makes the real front-end Parser.Parse (checked-in tables, Error()/recovery executed as shipped) return a non-nil error; main() exits with status 1 whenever Parse returns an error (read from main.go)", maxN),
		"outside the claim: the semantic checks (undefined symbols, duplicate definitions — internal/ast); malformed lexemes at scanner level (Scanner.ErrorCount is not consulted by main)")
	c.RunJobs(filterJobs(jobs), 4)
}
