package gv

import (
	"encoding/json"
	"fmt"
	"go/ast"
	goparser "go/parser"
	gotoken "go/token"
	"os"
	"path/filepath"
	"strconv"
	"strings"

	"golang.org/x/tools/go/ssa"

	"verif/gosym/engine"
)

func init() {
	Register("C15", checkC15)
	Register("C14", checkC14)
}

// shippedProductions extracts (head, body) of every entry of ProductionsTable in
// internal/frontend/parser/tables.go from its String field ("Head : sym sym << action >> ;").
func shippedProductions() ([][]string, error) {
	fset := gotoken.NewFileSet()
	f, err := goparser.ParseFile(fset, RepoRoot+"/internal/frontend/parser/tables.go", nil, 0)
	if err != nil {
		return nil, err
	}
	var out [][]string
	ast.Inspect(f, func(n ast.Node) bool {
		vs, ok := n.(*ast.ValueSpec)
		if !ok || len(vs.Names) != 1 || vs.Names[0].Name != "ProductionsTable" || len(vs.Values) != 1 {
			return true
		}
		cl, ok := vs.Values[0].(*ast.CompositeLit)
		if !ok {
			return true
		}
		for _, el := range cl.Elts {
			ecl, ok := el.(*ast.CompositeLit)
			if !ok || len(ecl.Elts) == 0 {
				continue
			}
			lit, ok := ecl.Elts[0].(*ast.BasicLit)
			if !ok {
				continue
			}
			s, _ := strconv.Unquote(lit.Value)
			if i := strings.Index(s, "<<"); i >= 0 {
				s = strings.TrimSpace(s[:i]) // the terminating " ;" follows the action
			} else {
				s = strings.TrimSuffix(strings.TrimSpace(s), ";")
			}
			fields := strings.Fields(s)
			// Head : body...
			if len(fields) < 2 || fields[1] != ":" {
				continue
			}
			out = append(out, append([]string{fields[0]}, fields[2:]...))
		}
		return false
	})
	return out, nil
}

func (c *Ctx) frontParserTarget() (*Target, *RefLR, error) {
	g, err := ReadSpecGrammar(RepoRoot + "/spec/gocc2.ebnf")
	if err != nil {
		return nil, nil, err
	}
	r := BuildRefLR(g)
	if r.Conflict {
		return nil, nil, fmt.Errorf("the reference LR(1) automaton of spec/gocc2.ebnf has conflicts")
	}
	shipped, err := shippedProductions()
	if err != nil {
		return nil, nil, err
	}
	// map shipped entry -> spec production (1-based; entry 0 is S! : Grammar)
	used := map[int]bool{}
	var pm []int
	for i, sp := range shipped {
		idx := -1
		if i == 0 {
			idx = 0
		} else {
			for k, p := range g.Prods {
				if p.Head != sp[0] || len(p.Body) != len(sp)-1 || used[k+1] {
					continue
				}
				same := true
				for j, s := range p.Body {
					if s.Name != sp[j+1] {
						same = false
					}
				}
				if same {
					idx = k + 1
					used[idx] = true
					break
				}
			}
		}
		pm = append(pm, idx)
	}
	dir, _ := os.MkdirTemp(c.Scratch, "frontdata")
	var b strings.Builder
	b.WriteString("//go:build verif\n\npackage parser\n\n// shipped ProductionsTable entry -> production of spec/gocc2.ebnf (same head and body)\nvar verifProdMap = []int{")
	for _, x := range pm {
		fmt.Fprintf(&b, "%d, ", x)
	}
	b.WriteString("}\n")
	f1 := filepath.Join(dir, "prodmap.go")
	os.WriteFile(f1, []byte(b.String()), 0o644)
	f2 := filepath.Join(dir, "specdata.go")
	os.WriteFile(f2, []byte(strings.Replace(g.HarnessData(true), "var verifProds = []verifProd{", "var verifProds = []verifProd{", 1)), 0o644)
	f3 := filepath.Join(dir, "specref.go")
	os.WriteFile(f3, []byte(r.HarnessTables()), 0o644)
	t := repoTarget("internal/frontend/parser", "parser", "frontparser/c15.go", "frontparser/dump.go")
	t.Harness = append(t.Harness, f1, f2, f3)
	// candidate simulation relation between shipped states and reference states
	pairs, err := c.frontSimPairs(t, g, r)
	if err != nil {
		return nil, nil, err
	}
	var pb strings.Builder
	pb.WriteString("//go:build verif\n\npackage parser\n\n// candidate simulation relation (shipped state, reference state), found by search from (0,0)\nvar verifSimPairs = [][2]int{")
	for _, p := range pairs {
		fmt.Fprintf(&pb, "{%d, %d}, ", p[0], p[1])
	}
	pb.WriteString("}\n")
	f4 := filepath.Join(dir, "simpairs.go")
	os.WriteFile(f4, []byte(pb.String()), 0o644)
	t.Harness = append(t.Harness, f4)
	c.Extra["simulation_relation_pairs"] = len(pairs)
	return t, r, nil
}

type frontDump struct {
	CanRecover []bool `json:"can_recover"`
	Actions    [][]struct {
		Tok string `json:"tok"`
		K   int    `json:"k"`
		V   int    `json:"v"`
	} `json:"actions"`
	Goto []map[string]int `json:"goto"`
}

// frontSimPairs dumps the shipped tables natively and searches the pairs (shipped state,
// reference state) reachable from (0,0) by corresponding shifts and gotos. Mismatches do not
// stop the search: they are found (and reported) by the solver-checked harness.
func (c *Ctx) frontSimPairs(t *Target, g *SynGrammar, r *RefLR) ([][2]int, error) {
	// the dump runs before simpairs.go exists: give the package an empty relation for this build
	tmp := *t
	tmp.Harness = append([]string{}, t.Harness...)
	stub := filepath.Join(c.Scratch, "simpairs_stub.go")
	os.WriteFile(stub, []byte("//go:build verif\n\npackage parser\n\nvar verifSimPairs = [][2]int{}\n"), 0o644)
	tmp.Harness = append(tmp.Harness, stub)
	bin := filepath.Join(c.Scratch, "frontdump.test")
	if err := tmp.BuildReplayBinary(bin, c.Scratch); err != nil {
		return nil, err
	}
	nr, err := tmp.RunReplayBinary(bin, "VerifDumpTables", "/dev/null")
	if nr == nil {
		return nil, err
	}
	m := tablesRe.FindStringSubmatch(nr.Raw)
	if m == nil {
		return nil, fmt.Errorf("no table dump in native output")
	}
	var d frontDump
	if err := json.Unmarshal([]byte(m[1]), &d); err != nil {
		return nil, err
	}
	tidx := map[string]int{}
	for i, n := range r.Terms {
		tidx[n] = i
	}
	seen := map[[2]int]bool{{0, 0}: true}
	work := [][2]int{{0, 0}}
	for i := 0; i < len(work); i++ {
		s, rs := work[i][0], work[i][1]
		if s >= len(d.Actions) || rs >= len(r.States) {
			continue
		}
		add := func(p [2]int) {
			if !seen[p] && len(seen) < 4000 {
				seen[p] = true
				work = append(work, p)
			}
		}
		for _, a := range d.Actions[s] {
			col, ok := tidx[a.Tok]
			if !ok {
				continue
			}
			if ra := r.Resolved[rs][col]; a.K == 2 && ra >= 2 {
				add([2]int{a.V, ra - 2})
			}
		}
		for ntName, tgt := range d.Goto[s] {
			for k, n := range r.NTs {
				if n == ntName {
					if rt, ok := r.Goto[rs][-(k + 1)]; ok {
						add([2]int{tgt, rt})
					}
				}
			}
		}
	}
	return work, nil
}

func (c *Ctx) frontJobs(maxN int) []Job {
	t, r, err := c.frontParserTarget()
	if err != nil {
		c.Inconclusive = append(c.Inconclusive, err.Error())
		return nil
	}
	c.Extra["spec_grammar"] = fmt.Sprintf("%d productions, %d terminals, reference LR(1) automaton with %d states", len(r.Prods)-1, len(r.Terms), len(r.States))
	var jobs []Job
	jobs = append(jobs, Job{
		Name:           "front-end table simulation",
		Target:         t,
		Run:            SymRun{Harness: "VerifC15TableSim", LoopBound: 400, InitExtra: []string{RepoMod + "/internal/frontend/token"}},
		Bounds:         "every pair of the simulation relation between the shipped automaton and the reference LR(1) automaton of the spec, every terminal and end of input (symbolic), every nonterminal (symbolic): unbounded in the length of the input",
		RequiredCovers: []string{"end"},
	})
	for n := 0; n <= 2 && n <= maxN; n++ {
		jobs = append(jobs, Job{
			Name:           fmt.Sprintf("front-end lockstep used-parser N=%d", n),
			Target:         t,
			Run:            SymRun{Harness: "VerifC15Lockstep", Params: map[string]int{"N": n, "STEPS": 12*(n+1) + 8, "STALE": 2}, LoopBound: 64, LoopBounds: map[string]int{"Parse": 12*(n+1) + 16, "verifRefRun": 12*(n+1) + 16}, ForkFuncs: []string{"Parse", "VerifC15Lockstep", "verifRefRun", "Error", "newError", "popNonRecoveryStates", "firstRecoveryState"}, InitExtra: []string{RepoMod + "/internal/frontend/token"}},
			Bounds:         fmt.Sprintf("a parser object whose stack holds 2 arbitrary stale states (left by an earlier input), every sequence of %d front-end tokens", n),
			RequiredCovers: []string{"end"},
		})
	}
	for n := 0; n <= maxN; n++ {
		jobs = append(jobs, Job{
			Name:           fmt.Sprintf("front-end lockstep N=%d", n),
			Target:         t,
			Run:            SymRun{Harness: "VerifC15Lockstep", Params: map[string]int{"N": n, "STEPS": 12*(n+1) + 8}, LoopBound: 64, LoopBounds: map[string]int{"Parse": 12*(n+1) + 16, "verifRefRun": 12*(n+1) + 16}, ForkFuncs: []string{"Parse", "VerifC15Lockstep", "verifRefRun", "Error", "newError", "popNonRecoveryStates", "firstRecoveryState"}, InitExtra: []string{RepoMod + "/internal/frontend/token"}},
			Bounds:         fmt.Sprintf("every sequence of %d front-end tokens over the %d terminals of spec/gocc2.ebnf", n, len(r.Terms)),
			RequiredCovers: []string{"end"},
		})
	}
	jobs = append(jobs, Job{
		Name:           "undefined regular definition",
		Target:         repoTarget("internal/lexer/items", "items", "items/c18.go", "items/c14.go"),
		Run:            SymRun{Harness: "VerifC14UndefRegDef", LoopBound: 400, ConcreteFmt: true, ForkFuncs: []string{"VerifC14UndefRegDef"}},
		AllowPanic:     []string{"@lexpart.go"},
		TimeoutS:       600,
		Bounds:         "lexer item-set construction (items.GetItemSets, the only place where references to regular definitions are resolved) on a seven-definition lexical part built with the real ast constructors; WHICH of its 8 references is renamed to an undefined name is symbolic (none: the construction must return)",
		RequiredCovers: []string{"well-formed lexical part accepted"},
	})
	return jobs
}

func checkC15(c *Ctx) {
	maxN := 4
	if !c.Quick() {
		maxN = 5
	}
	jobs := c.frontJobs(maxN)
	c.BoundsText = append(c.BoundsText, fmt.Sprintf("the real front-end Parser.Parse with the checked-in ActionTable/GotoTable/ProductionsTable (reduce functions replaced by recording stubs) on every token sequence of length 0..%d, in lock-step with the canonical LR(1) machine that /verif builds from spec/gocc2.ebnf (read by /verif's own reader on every run): accept iff sentence; every reduction is by the documented production with the same head and body (shipped entries matched to spec productions by head and body: a bijection)", maxN))
	c.RunJobs(filterJobs(jobs), 4)
}

// redirectTo replaces a function of the code under test by a function of the harness package
// with the same parameter list.
func redirectTo(pkgPath, name string) engine.Intrinsic {
	return func(e *engine.Engine, st *engine.St, args []engine.Value, call *ssa.CallCommon) (engine.Value, bool) {
		fn := e.FindFunc(pkgPath, name)
		if fn == nil {
			panic("harness function " + name + " not found")
		}
		return engine.Pack(e.CallFunc(st, fn, args, nil)), true
	}
}

// mainPipelineJobs: the real main() on ill-formed grammar files with symbolic flags.
func mainPipelineJobs(c *Ctx) []Job {
	tm := &Target{ModDir: RepoRoot, PkgDir: RepoRoot, PkgPath: RepoMod, PkgName: "main", Harness: []string{VerifRoot + "/harness/main/c04.go", VerifRoot + "/harness/main/c14.go"}}
	exit := func(e *engine.Engine, st *engine.St, args []engine.Value, call *ssa.CallCommon) (engine.Value, bool) {
		ill := e.ReadGlobal(st, RepoMod, "verifIllFormed").(*engine.T)
		code := args[0].(*engine.T)
		e.AssertAt(st, e.S.Not(e.S.And(ill, e.S.Eq(code, e.S.Const(0, code.W)))), "gocc does not exit with status zero on an ill-formed grammar")
		e.CoverAt(st, "exit")
		e.Kill(st)
		return nil, true
	}
	none := func(e *engine.Engine, st *engine.St, args []engine.Value, call *ssa.CallCommon) (engine.Value, bool) {
		return nil, true
	}
	intr := map[string]engine.Intrinsic{
		"os.Exit":                                  exit,
		RepoMod + "/internal/config.New":           redirectTo(RepoMod, "verifConfigNew"),
		RepoMod + "/internal/lexer/gen/golang.Gen": none,
		RepoMod + "/internal/token/gen.Gen":        none,
		RepoMod + "/internal/util/gen.Gen":         none,
		RepoMod + "/internal/parser/gen.Gen":       redirectTo(RepoMod, "verifGenParser"),
		RepoMod + "/internal/io.WriteFileString":   none,
		RepoMod + "/internal/io.WriteFile":         none,
		"flag.PrintDefaults":                       none,
	}
	// the grammar files of harness/main/c14.go, in the same order, with the way each must end
	const viaExit, viaUnknownProd, viaDupProd = "exit", "rejected by panic @lexpart.go:102", "rejected by panic @lexprodmap.go:67"
	variants := []struct{ what, ends string }{
		{"well-formed", "well-formed grammar: generation completed"},
		{"undefined regular definition in a token", viaUnknownProd},
		{"undefined regular definition in an ignored token", viaUnknownProd},
		{"undefined regular definition inside a regular definition", viaUnknownProd},
		{"undefined regular definition, lexical part only", viaUnknownProd},
		{"undefined syntax production", viaExit},
		{"token defined twice", viaDupProd},
		{"regular definition defined twice", viaDupProd},
		{"ignored token defined twice", viaDupProd},
		{"alternative left empty", viaExit},
		{"missing semicolon", viaExit},
		{"stray colon", viaExit},
		{"character outside the token alphabet", viaExit},
	}
	var jobs []Job
	for i, v := range variants {
		jobs = append(jobs, Job{
			Name:   fmt.Sprintf("main pipeline %d: %s", i, v.what),
			Target: tm,
			Run: SymRun{Harness: "VerifC14Main", Params: map[string]int{"ONLY": i}, LoopBound: 4000, ConcreteFmt: true, ForkFuncs: []string{"VerifC14Main", "main"}, Intrinsics: intr,
				InitPkgs: func(p string) bool {
					return p == "sort" || p == "unicode" || p == "unicode/utf8" || p == "strconv" || (strings.HasPrefix(p, RepoMod) && !strings.Contains(p, "/gen"))
				}},
			AllowPanic:          []string{"panic @", "panic: "},
			TimeoutS:            600,
			ConfirmOnlyFailures: true,
			PanicIsCover:        true,
			MaxCoverReplays:     -1,
			Bounds:              "the real main() (front-end scanner, parser, AST construction, symbol tables, lexer item sets, FIRST sets and LR(1) item sets executed as shipped; the four code generators and the -v dump writers stubbed) on the grammar file '" + v.what + "' with all seven boolean flags (-a -v -zip -u -no_lexer -debug_lexer -debug_parser, seen through the config.Config interface) symbolic; must end by: " + v.ends,
			RequiredCovers:      []string{v.ends},
		})
	}
	return jobs
}

func checkC14(c *Ctx) {
	maxN := 4
	if !c.Quick() {
		maxN = 5
	}
	jobs := c.frontJobs(maxN)
	jobs = append(jobs, consistentJobs()...)
	jobs = append(jobs, mainPipelineJobs(c)...)
	c.BoundsText = append(c.BoundsText, "semantic level (kernel): ast.consistent on a two-production grammar with an undefined production and/or an undefined token of SYMBOLIC spelling and with every map iteration order symbolic: an undefined syntax production (any capital first letter) or an alternative left empty always yields an error; ast.NewLexPart on two definitions of the same kind with symbolic names yields a lexical part iff the names differ")
	c.BoundsText = append(c.BoundsText, fmt.Sprintf("token level: every sequence of 0..%d front-end tokens that is NOT a sentence of spec/gocc2.ebnf makes the real front-end Parser.Parse (checked-in tables, Error()/recovery executed as shipped) return a non-nil error", maxN),
		"undefined regular definitions: (a) items.GetItemSets on a seven-definition lexical part built with the real ast constructors, WHICH of its 8 references is renamed to an undefined name symbolic: the construction never returns normally; (b) pipeline: the real main() on 13 grammar files (1 well-formed, 12 ill-formed: undefined regular definition x4, undefined production, duplicate definition x3, empty alternative, missing semicolon, stray colon, foreign character) with all seven boolean flags symbolic: main returns normally (exit status 0) only for the well-formed file, every ill-formed one ends in os.Exit(non-zero) or an explicit panic (exit status 2) at the expected site, for every flag combination",
		"outside the claim: grammar files other than the 13 of the pipeline harness at pipeline level (the token-level and kernel jobs quantify over the file instead); the flag parser itself (config.New is replaced by arbitrary booleans behind the config.Config interface; -o/-p/-h not modelled); the four code generators (stubbed: not reached on ill-formed input, which the jobs show); malformed lexemes that the scanner maps to a valid token (Scanner.ErrorCount is not consulted by main)")
	c.Assumptions = append(c.Assumptions, "pipeline and writer jobs use the concrete text model: fmt.Sprintf/Fprintf, strings.Builder, strings.Join and strconv.Itoa compute the real text when all operands are concrete (String/Error methods executed by the engine); config.New is replaced by arbitrary booleans behind the config.Config interface; text/template, go/format, gob/gzip and file output are stubs", "defer/recover: a panic below a function with pending deferred calls is unwound only on an execution that has not branched since the call; anything else is reported as unsupported (inconclusive)")
	c.RunJobs(filterJobs(jobs), 4)
}

// consistentJobs: kernel harness on ast.consistent (C14 semantic half, C11 order independence).
func consistentJobs() []Job {
	ta := repoTarget("internal/ast", "ast", "astpkg/c11.go", "astpkg/c14.go")
	var jobs []Job
	for mode := 0; mode <= 4; mode++ {
		jobs = append(jobs, Job{
			Name:         fmt.Sprintf("consistent mode=%d", mode),
			Target:       ta,
			Run:          SymRun{Harness: "VerifC14Consistent", Params: map[string]int{"MODE": mode}, LoopBound: 24, SymbolicMapOrder: true, Prune: true},
			ReplayParams: map[string]int{"REPEAT": 200},
			Bounds:       fmt.Sprintf("ast.consistent, case %d (0 all defined, 1 undefined production, 2 undefined token, 3 both, 4 empty alternative); spellings and every map iteration order symbolic", mode),
		})
	}
	for _, mp := range [][2]int{{1, 1}, {0, 1}, {1, 2}} {
		jobs = append(jobs, Job{
			Name:         fmt.Sprintf("consistent mode=%d pre=%d", mp[0], mp[1]),
			Target:       ta,
			Run:          SymRun{Harness: "VerifC14Consistent", Params: map[string]int{"MODE": mp[0], "PRE": mp[1]}, LoopBound: 24, SymbolicMapOrder: true, Prune: true},
			ReplayParams: map[string]int{"REPEAT": 200},
			Bounds:       fmt.Sprintf("ast.consistent, case %d with the references behind %s; spellings and every map iteration order symbolic", mp[0], map[int]string{1: "the error symbol (recovery alternative)", 2: "a defined token"}[mp[1]]),
		})
	}
	for kind := 0; kind <= 2; kind++ {
		jobs = append(jobs, Job{
			Name:           fmt.Sprintf("duplicate definitions kind=%d", kind),
			Target:         ta,
			Run:            SymRun{Harness: "VerifC14Duplicates", Params: map[string]int{"KIND": kind}, LoopBound: 24, Prune: true},
			AllowPanic:     []string{"@lexprodmap.go"},
			Bounds:         fmt.Sprintf("ast.NewLexPart on two definitions of kind %d (0 token, 1 regular definition, 2 ignored token) with symbolic one-letter names", kind),
			RequiredCovers: []string{"end"},
		})
	}
	return jobs
}
