package gv

import (
	"fmt"

	"golang.org/x/tools/go/ssa"

	"verif/gosym/engine"
)

// unicodeStub models a unicode.IsX predicate exactly on ASCII and as an uninterpreted function
// above (the C13 harnesses restrict text to ASCII; the stub keeps the engine out of the
// Unicode range tables on branches the path condition excludes).
func unicodeStub(name string, ascii func(e *engine.Engine, r *engine.T) *engine.T) engine.Intrinsic {
	return func(e *engine.Engine, st *engine.St, args []engine.Value, call *ssa.CallCommon) (engine.Value, bool) {
		r := args[0].(*engine.T)
		c := func(v int64) *engine.T { return e.S.ConstInt(v, 32) }
		isASCII := e.S.And(e.S.SLe(c(0), r), e.S.SLt(r, c(0x80)))
		other := e.S.Not(e.S.Eq(e.UF1(name, r, 64), e.S.ConstInt(0, 64)))
		return e.S.Ite(isASCII, ascii(e, r), other), true
	}
}

func between(e *engine.Engine, r *engine.T, lo, hi rune) *engine.T {
	return e.S.And(e.S.SLe(e.S.ConstInt(int64(lo), 32), r), e.S.SLe(r, e.S.ConstInt(int64(hi), 32)))
}

var c13Stubs = map[string]engine.Intrinsic{
	// //line comments: the parsed line number only moves positions, which C13 does not compare
	"strconv.Atoi": func(e *engine.Engine, st *engine.St, args []engine.Value, call *ssa.CallCommon) (engine.Value, bool) {
		return e.UFOfString(st, "Atoi", args[0], nil), true
	},
	"unicode.IsUpper": unicodeStub("IsUpper", func(e *engine.Engine, r *engine.T) *engine.T { return between(e, r, 'A', 'Z') }),
	"unicode.IsLetter": unicodeStub("IsLetter", func(e *engine.Engine, r *engine.T) *engine.T {
		return e.S.Or(between(e, r, 'A', 'Z'), between(e, r, 'a', 'z'))
	}),
	"unicode.IsDigit": unicodeStub("IsDigit", func(e *engine.Engine, r *engine.T) *engine.T { return between(e, r, '0', '9') }),
}

func init() {
	Register("C13", checkC13)
	// util.RuneToString formats a symbolic rune with fmt: inside the engine it is replaced by a
	// harness function of the code point alone (verifRuneKey); natively the real one runs
	c13Stubs[RepoMod+"/internal/util.RuneToString"] = redirectTo(RepoMod+"/internal/frontend/scanner", "verifRuneKey")
}

func checkC13(c *Ctx) {
	t := repoTarget("internal/frontend/scanner", "scanner", "frontscanner/c13.go")
	extra := []string{RepoMod + "/internal/frontend/token"}
	var jobs []Job
	type shape struct{ t1, l, t2 int }
	shapes := []shape{{0, 1, 1}, {0, 3, 2}, {1, 2, 1}, {1, 4, 1}, {0, 5, 1}, {2, 2, 2}}
	if !c.Quick() {
		shapes = append(shapes, shape{0, 2, 1}, shape{1, 1, 1}, shape{0, 5, 2}, shape{1, 5, 2}, shape{2, 4, 2}, shape{1, 6, 1}, shape{0, 7, 1})
	}
	for _, s := range shapes {
		jobs = append(jobs, Job{
			Name:   fmt.Sprintf("layout T1=%d L=%d T2=%d", s.t1, s.l, s.t2),
			Target: t,
			Run:    SymRun{Harness: "VerifC13Layout", Params: map[string]int{"T1": s.t1, "L": s.l, "T2": s.t2, "K": 3}, LoopBound: 24, InitExtra: extra, Intrinsics: c13Stubs, Prune: true},
			Bounds: fmt.Sprintf("every ASCII text t1 (%d bytes, no quote/slash/angle characters), every layout of %d bytes (white space, // and /* */ comments), every ASCII text t2 (%d bytes); first 3 tokens compared", s.t1, s.l, s.t2),
		})
	}
	maxM := 3
	if !c.Quick() {
		maxM = 5
	}
	trail := []shape{{1, 2, 0}, {1, 3, 0}, {0, 3, 0}, {2, 4, 0}}
	if !c.Quick() {
		trail = append(trail, shape{1, 5, 0}, shape{2, 6, 0}, shape{0, 6, 0})
	}
	for _, s := range trail {
		jobs = append(jobs, Job{
			Name:   fmt.Sprintf("trailing layout T1=%d L=%d", s.t1, s.l),
			Target: t,
			Run:    SymRun{Harness: "VerifC13Trailing", Params: map[string]int{"T1": s.t1, "L": s.l, "K": 3}, LoopBound: 24, InitExtra: extra, Intrinsics: c13Stubs, Prune: true},
			Bounds: fmt.Sprintf("every ASCII text t1 (%d bytes, no quote/slash/angle characters) followed, up to the end of the file, by every layout of %d bytes (white space, /* */ comments, // comments with or without final newline): same tokens as t1 alone", s.t1, s.l),
		})
	}
	for m := 0; m <= maxM; m++ {
		jobs = append(jobs, Job{
			Name:   fmt.Sprintf("quoting M=%d", m),
			Target: t,
			Run:    SymRun{Harness: "VerifC13Quoting", Params: map[string]int{"M": m}, LoopBound: 24, InitExtra: extra, Intrinsics: c13Stubs, Prune: true},
			Bounds: fmt.Sprintf("every ASCII string content of %d bytes without quotes, backslash, newline", m),
		})
	}
	jobs = append(jobs, Job{
		Name:   "char spellings",
		Target: t,
		Run:    SymRun{Harness: "VerifC13CharLit", LoopBound: 24, InitExtra: extra, Intrinsics: c13Stubs, Prune: true},
		Bounds: "every printable ASCII character: literal, \\x, octal, \\u and \\U spelling",
	})
	for r, what := range []string{"U+0080..U+00FF: raw UTF-8, \\x, octal, \\u, \\U", "U+0100..U+FFFF without surrogates: raw UTF-8, \\u, \\U"} {
		jobs = append(jobs, Job{
			Name:   fmt.Sprintf("char spellings wide range=%d", r),
			Target: t,
			Run:    SymRun{Harness: "VerifC13CharLitWide", Params: map[string]int{"RANGE": r}, LoopBound: 24, InitExtra: extra, Intrinsics: c13Stubs, Prune: true},
			Bounds: "every code point in " + what,
		})
	}
	c.BoundsText = append(c.BoundsText, "scanner/literal level only: the real scanner.Init/next/Scan/skipWhitespace/scanComment/scanChar/scanString/scanRawString/scanEscape, ast.NewStringLit and util.LitToRune; (i) any non-empty layout between two texts gives the same (type, text) token sequence as a single space, leading layout is invisible, and so is layout at the end of the file (a final // comment without newline included); (ii) \"c\" and `c` are one string_lit each with the same value; (iii) the spellings of a character (ASCII: five; U+0080..U+00FF: five incl. raw UTF-8; U+0100..U+FFFF: raw UTF-8, \\u, \\U) are one char_lit each with the same code point (values for all valid literals: C20)",
		"outside the claim: that nothing but token types/texts and literal values flows into the generated files (an information-flow fact, not a solver query); byte identity of whole generated packages; non-ASCII text outside character literals (unicode tables); code points above U+FFFF")
	c.RunJobs(filterJobs(jobs), 4)
}
