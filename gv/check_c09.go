package gv

import (
	"fmt"
	"os"
	"path/filepath"
	"strings"

	"golang.org/x/tools/go/ssa"

	"verif/gosym/engine"
)

func init() { Register("C09", checkC09) }

// C09 at the levels the engine reaches: (a) termination of the lexer item-set construction for
// a family of nested pattern shapes (symbolic choice), decided by unwinding assertions;
// (b) pipeline: the real main() terminates and, when it returns normally, has called every
// generator the configuration calls for, for every flag combination (see c09PipelineJobs).
func checkC09(c *Ctx) {
	t := repoTarget("internal/lexer/items", "items", "items/c18.go", "items/c14.go", "items/c09.go")
	t.ReplayTimeoutS, t.ReplayMemKB = 20, 4000000
	var jobs []Job
	for o := 0; o < 3; o++ {
		for i := 0; i < 3; i++ {
			jobs = append(jobs, Job{
				Name:              fmt.Sprintf("item-set termination outer=%d inner=%d", o, i),
				Target:            t,
				Run:               SymRun{Harness: "VerifC09Emoves", LoopBound: 300, RecBound: 32, ConcreteFmt: true, ForkFuncs: []string{"VerifC09Emoves"}, Intrinsics: nil},
				TimeoutS:          300,
				UnwindIsViolation: true,
				RequiredCovers:    []string{"item sets constructed"},
				Bounds:            fmt.Sprintf("token t : 'x' OUTER(INNER(operand)) 'y' with OUTER=%s, INNER=%s and the operand symbolic among 5 shapes (character; two alternatives; a [b]; [a]; {a} b): items.GetItemSets finishes with every loop (Emoves worklist, closures, set construction) inside 300 iterations", opName(o), opName(i)),
			})
			jobs[len(jobs)-1].Run.Params = map[string]int{"OUTER": o, "INNER": i}
		}
	}
	if !c.Quick() {
		for m := 0; m < 3; m++ {
			for o := 0; o < 3; o++ {
				for i := 0; i < 3; i++ {
					jobs = append(jobs, Job{
						Name:              fmt.Sprintf("item-set termination outer=%d mid=%d inner=%d", o, m, i),
						Target:            t,
						Run:               SymRun{Harness: "VerifC09Emoves", Params: map[string]int{"OUTER": o, "INNER": i, "MID": m}, LoopBound: 400, RecBound: 32, ConcreteFmt: true, ForkFuncs: []string{"VerifC09Emoves"}},
						TimeoutS:          300,
						UnwindIsViolation: true,
						RequiredCovers:    []string{"item sets constructed"},
						Bounds:            fmt.Sprintf("three levels: 'x' %s(%s(%s(operand))) 'y', operand symbolic among 5 shapes; every loop inside 400 iterations", opName(o), opName(m), opName(i)),
					})
				}
			}
		}
	}
	jobs = append(jobs, c09PipelineJobs(c)...)
	jobs = append(jobs, c09SDTJobs(c)...)
	c.BoundsText = append(c.BoundsText,
		"termination, kernel level: items.GetItemSets on 45 pattern shapes 'x' OUTER(INNER(operand)) 'y' (OUTER, INNER in {repetition, option, group}; 5 operands incl. ones that match the empty string); termination = unwinding assertions with bound 300 on every loop; a violated unwinding assertion is replayed natively under 20 s / 4 GB and confirmed when the compiled harness does not finish",
		"pipeline level: the real main() with symbolic flags on well-formed, conflict-free grammar files (lexer-only, nested nullable repetitions, corpus grammars, hostile spellings) and four ill-formed ones: terminates inside the unwinding bounds, exits early only on the ill-formed ones and then with a non-zero status, and WHENEVER it returns normally has called exactly the generators the configuration calls for (token, util; lexer unless -no_lexer; parser+errors iff there is a syntax part)",
		"outside the claim: that the written packages compile (oracle: the Go type checker), hostile spellings in templates, arbitrary byte strings as input, -o/-p handling, real file output (io stubs)")
	c.Assumptions = append(c.Assumptions, "pipeline and writer jobs use the concrete text model: fmt.Sprintf/Fprintf, strings.Builder, strings.Join and strconv.Itoa compute the real text when all operands are concrete (String/Error methods executed by the engine); config.New is replaced by arbitrary booleans behind the config.Config interface; text/template, go/format, gob/gzip and file output are stubs", "defer/recover: a panic below a function with pending deferred calls is unwound only on an execution that has not branched since the call; anything else is reported as unsupported (inconclusive)")
	c.RunJobs(filterJobs(jobs), 4)
}

func opName(k int) string { return []string{"repetition {}", "option []", "group ()"}[k] }

const c09LexOnly = "_d : '0'-'9' ;\n_l : 'a'-'z' ;\nid : _l { _l | _d } ;\nnum : _d { _d } [ '.' _d { _d } ] ;\n!ws : ' ' | '\\n' ;\n"

func c09PipelineJobs(c *Ctx) []Job {
	type gr struct {
		name, why string
		syn       bool
		src       string
		ill       bool // ill-formed: gocc may (must, says C14) reject it; C09 only demands that it does not finish with status zero without output
	}
	gs := []gr{
		{"LEXONLY", "a grammar without syntax part", false, c09LexOnly, false},
		{"NESTED", "lexical part with repetitions of bodies that match the empty string", true, "t : 'x' { { 'a' } } 'y' ;\nu : { [ 'b' ] } 'c' ;\nS : t | S u ;\n", false},
	}
	for _, g := range SynCorpus {
		if g.Name == "G01" || g.Name == "G02" || !c.Quick() {
			gs = append(gs, gr{g.Name, g.Why, true, g.BNF(false), false})
		}
	}
	for _, g := range HostileCorpus {
		gs = append(gs, gr{g.Name, g.Why, true, g.BNF(false), false})
	}
	gs = append(gs,
		gr{"ILL-REGDEF", "ill-formed: undefined regular definition (gocc panics)", true, "_l : 'a'-'z' ;\nid : _l { _l | _x } ;\nS : id ;\n", true},
		gr{"ILL-DUP", "ill-formed: token defined twice (gocc panics)", true, "id : 'a' ;\nid : 'b' ;\nS : id ;\n", true},
		gr{"ILL-SYNTAX", "ill-formed: missing semicolon (gocc exits 1)", true, "id : 'a' ;\nS : id | S id\n", true},
		gr{"ILL-CHAR", "ill-formed: invalid escape in a character literal (gocc panics)", false, "t : '\\q' ;\n", true},
	)
	var b strings.Builder
	b.WriteString("//go:build verif\n\npackage main\n\nvar verifC09Grammars = []verifC09Grammar{\n")
	for _, g := range gs {
		fmt.Fprintf(&b, "\t{%q, %v, %q, %v},\n", g.name, g.syn, g.src, g.ill)
	}
	b.WriteString("}\n")
	dir, _ := os.MkdirTemp(c.Scratch, "c09data")
	data := filepath.Join(dir, "c09data.go")
	os.WriteFile(data, []byte(b.String()), 0o644)
	tm := &Target{ModDir: RepoRoot, PkgDir: RepoRoot, PkgPath: RepoMod, PkgName: "main", Harness: []string{VerifRoot + "/harness/main/c04.go", VerifRoot + "/harness/main/c14.go", VerifRoot + "/harness/main/c09.go", data}}
	exit := func(e *engine.Engine, st *engine.St, args []engine.Value, call *ssa.CallCommon) (engine.Value, bool) {
		ill := e.ReadGlobal(st, RepoMod, "verifC09Ill").(*engine.T)
		code := args[0].(*engine.T)
		e.AssertAt(st, ill, "gocc does not exit early on a well-formed, conflict-free grammar with consistent flags")
		e.AssertAt(st, e.S.Not(e.S.Eq(code, e.S.Const(0, code.W))), "an early exit has a non-zero status")
		e.Kill(st)
		return nil, true
	}
	zero := func(e *engine.Engine, st *engine.St, args []engine.Value, call *ssa.CallCommon) (engine.Value, bool) {
		res := call.Signature().Results()
		switch res.Len() {
		case 0:
			return nil, true
		case 1:
			return e.Zero(res.At(0).Type()), true
		}
		return e.Zero(res), true
	}
	intr := map[string]engine.Intrinsic{
		"os.Exit":                                  exit,
		RepoMod + "/internal/config.New":           redirectTo(RepoMod, "verifConfigNew"),
		RepoMod + "/internal/lexer/gen/golang.Gen": redirectTo(RepoMod, "verifGenLexerRec"),
		RepoMod + "/internal/parser/gen.Gen":       redirectTo(RepoMod, "verifGenParserRec"),
		RepoMod + "/internal/token/gen.Gen":        redirectTo(RepoMod, "verifGenTokenRec"),
		RepoMod + "/internal/util/gen.Gen":         redirectTo(RepoMod, "verifGenUtilRec"),
		RepoMod + "/internal/io.WriteFileString":   zero,
		RepoMod + "/internal/io.WriteFile":         zero,
		"flag.PrintDefaults":                       zero,
	}
	var jobs []Job
	for i, g := range gs {
		req := []string{"generation completed"}
		var allow []string
		if g.ill {
			req = []string{}
			allow = []string{"panic @", "panic: "}
		}
		jobs = append(jobs, Job{
			AllowPanic: allow,
			Name:       "main pipeline " + g.name,
			Target:     tm,
			Run: SymRun{Harness: "VerifC09Main", Params: map[string]int{"ONLY": i}, LoopBound: 20000, ConcreteFmt: true, ForkFuncs: []string{"VerifC09Main", "main"}, Intrinsics: intr,
				InitPkgs: func(p string) bool {
					return p == "sort" || p == "unicode" || p == "unicode/utf8" || p == "strconv" || (strings.HasPrefix(p, RepoMod) && !strings.Contains(p, "/gen"))
				}},
			TimeoutS:            900,
			ConfirmOnlyFailures: true,
			Bounds:              fmt.Sprintf("the real main() on grammar %s (%s) with all seven boolean flags symbolic (no_lexer with debug_lexer excluded): terminates inside the unwinding bounds (20000 per loop) and returns normally having called the generators the configuration calls for; front end, symbol tables, lexer item sets, FIRST sets and LR(1) item sets are the shipped code, the four generators record their call", g.name, g.why),
			RequiredCovers:      req,
		})
	}
	return jobs
}

// c09SDTJobs: the action text of an alternative reaches the generated code verbatim. Kernel on
// frontend/token.(*Token).SDTVal with a symbolic action text (no placeholder in it, so that the
// regexp-driven placeholder rewriting is the identity and is modelled as such).
func c09SDTJobs(c *Ctx) []Job {
	t := repoTarget("internal/frontend/token", "token", "fronttoken/c09sdt.go")
	ident := func(e *engine.Engine, st *engine.St, args []engine.Value, call *ssa.CallCommon) (engine.Value, bool) {
		return args[1], true
	}
	maxL := 4
	if !c.Quick() {
		maxL = 7
	}
	var jobs []Job
	for l := 0; l <= maxL; l++ {
		jobs = append(jobs, Job{
			Name:           fmt.Sprintf("action text verbatim L=%d", l),
			Target:         t,
			Run:            SymRun{Harness: "VerifC09SDTVal", Params: map[string]int{"L": l}, LoopBound: 40, Prune: true, InitExtra: []string{"strings"}, Intrinsics: map[string]engine.Intrinsic{"(*regexp.Regexp).ReplaceAllStringFunc": ident}},
			RequiredCovers: []string{"end"},
			Bounds:         fmt.Sprintf("SDTVal on << + every ASCII text of %d bytes without '$', vertical tab and form feed + >>: the result is that text without white space at its ends", l),
		})
	}
	c.BoundsText = append(c.BoundsText, fmt.Sprintf("action text: frontend/token.(*Token).SDTVal on every ASCII action text of 0..%d bytes without placeholders returns it verbatim up to surrounding white space (so an action that starts with '<' or ends with '>' is not mangled); (*regexp.Regexp).ReplaceAllStringFunc is modelled as the identity, which it is on texts without '$'", maxL))
	return jobs
}
