package gv

import (
	"fmt"
	"strings"
)

// Sym is a grammar symbol of the syntax part. Terminals are either token identifiers (Lit
// false: `id`) or string literals (Lit true: `"+"`); Name is the spelling without quotes,
// which is also the key of the generated token.TokMap.
type Sym struct {
	Name  string
	Term  bool
	Lit   bool
	Error bool // the reserved error symbol
}

func NT(n string) Sym  { return Sym{Name: n} }
func Tok(n string) Sym { return Sym{Name: n, Term: true} }
func Lit(n string) Sym { return Sym{Name: n, Term: true, Lit: true} }
func Err() Sym         { return Sym{Name: "error", Term: true, Error: true} }

type Prod struct {
	Head   string
	Body   []Sym  // empty = the alternative written `empty`
	Action string // text between << >> (optional)
}

// SynGrammar is a corpus grammar; the oracle's view of it never passes through gocc.
type SynGrammar struct {
	Name   string
	Why    string
	Lex    string // lexical part (text), may be empty with -no_lexer style token ids
	Header string // file header between << >> (optional)
	Prods  []Prod
	Flags  []string // extra gocc flags (e.g. -a)
	// ExtraToks: tokens of the lexical part that the syntax part never mentions (C10)
	ExtraToks []string
}

func P(head string, body ...Sym) Prod { return Prod{Head: head, Body: body} }

// BNF prints the grammar in gocc's input syntax (printer owned by /verif).
func (g *SynGrammar) BNF(withActions bool) string {
	var b strings.Builder
	b.WriteString(g.Lex)
	if !strings.HasSuffix(g.Lex, "\n") {
		b.WriteString("\n")
	}
	if g.Header != "" && withActions {
		fmt.Fprintf(&b, "<< %s >>\n", g.Header)
	}
	var heads []string
	seen := map[string]bool{}
	for _, p := range g.Prods {
		if !seen[p.Head] {
			seen[p.Head] = true
			heads = append(heads, p.Head)
		}
	}
	for _, h := range heads {
		fmt.Fprintf(&b, "%s\n", h)
		first := true
		for _, p := range g.Prods {
			if p.Head != h {
				continue
			}
			if first {
				b.WriteString("\t: ")
				first = false
			} else {
				b.WriteString("\t| ")
			}
			if len(p.Body) == 0 {
				b.WriteString("empty")
			}
			for i, s := range p.Body {
				if i > 0 {
					b.WriteString(" ")
				}
				switch {
				case s.Error:
					b.WriteString("error")
				case s.Lit:
					b.WriteString(`"` + s.Name + `"`)
				default:
					b.WriteString(s.Name)
				}
			}
			if p.Action != "" && withActions {
				fmt.Fprintf(&b, "\t<< %s >>", p.Action)
			}
			b.WriteString("\n")
		}
		b.WriteString("\t;\n")
	}
	return b.String()
}

// Terminals lists the distinct terminals (without the error symbol) in order of appearance.
func (g *SynGrammar) Terminals() []Sym {
	var out []Sym
	seen := map[string]bool{}
	for _, p := range g.Prods {
		for _, s := range p.Body {
			if s.Term && !s.Error && !seen[s.Name] {
				seen[s.Name] = true
				out = append(out, s)
			}
		}
	}
	return out
}

func (g *SynGrammar) NonTerminals() []string {
	var out []string
	seen := map[string]bool{}
	for _, p := range g.Prods {
		if !seen[p.Head] {
			seen[p.Head] = true
			out = append(out, p.Head)
		}
	}
	return out
}

// HarnessData emits the Go source (package parser) that gives the harness its own view of the
// grammar: productions over symbol codes. Terminal t is code t (index into verifTermNames),
// nonterminal k is code -(k+1); the error symbol is code verifErrSym.
func (g *SynGrammar) HarnessData(withErrorAlts bool) string {
	return g.HarnessDataPkg("parser", withErrorAlts)
}

func (g *SynGrammar) HarnessDataPkg(pkg string, withErrorAlts bool) string {
	terms := g.Terminals()
	tidx := map[string]int{}
	for i, t := range terms {
		tidx[t.Name] = i
	}
	nts := g.NonTerminals()
	nidx := map[string]int{}
	for i, n := range nts {
		nidx[n] = i
	}
	var b strings.Builder
	b.WriteString("//go:build verif\n\npackage " + pkg + "\n\n")
	fmt.Fprintf(&b, "// grammar %s: %s\n", g.Name, g.Why)
	b.WriteString("var verifTermNames = []string{")
	for _, t := range terms {
		fmt.Fprintf(&b, "%q, ", t.Name)
	}
	if pkg == "token" {
		for _, t := range g.ExtraToks {
			fmt.Fprintf(&b, "%q, ", t)
		}
	}
	b.WriteString("}\n")
	b.WriteString("var verifNTNames = []string{")
	for _, n := range nts {
		fmt.Fprintf(&b, "%q, ", n)
	}
	b.WriteString("}\n")
	if pkg != "parser" {
		return b.String()
	}
	b.WriteString("const verifErrSym = 1000\n")
	b.WriteString("var verifProds = []verifProd{\n")
	for _, p := range g.Prods {
		hasErr := false
		for _, s := range p.Body {
			if s.Error {
				hasErr = true
			}
		}
		if hasErr && !withErrorAlts {
			// keep the index stable: an impossible production
			fmt.Fprintf(&b, "\t{head: %d, body: []int{verifErrSym}, dead: true},\n", nidx[p.Head])
			continue
		}
		fmt.Fprintf(&b, "\t{head: %d, body: []int{", nidx[p.Head])
		for _, s := range p.Body {
			switch {
			case s.Error:
				b.WriteString("verifErrSym, ")
			case s.Term:
				fmt.Fprintf(&b, "%d, ", tidx[s.Name])
			default:
				fmt.Fprintf(&b, "%d, ", -(nidx[s.Name] + 1))
			}
		}
		b.WriteString("}},\n")
	}
	b.WriteString("}\n")
	return b.String()
}

const stdLex = "!ws : ' ' | '\\t' | '\\n' | '\\r' ;\n"

// SynCorpus: conflict-free grammars (C02, C03, C06, C10, C12).
var SynCorpus = []*SynGrammar{
	{Name: "G01", Why: "expression grammar, left recursion, parentheses",
		Lex: stdLex + "num : '0'-'9' {'0'-'9'} ;\n",
		Prods: []Prod{
			P("E", NT("E"), Lit("+"), NT("T")), P("E", NT("T")),
			P("T", NT("T"), Lit("*"), NT("F")), P("T", NT("F")),
			P("F", Lit("("), NT("E"), Lit(")")), P("F", Tok("num")),
		}},
	{Name: "G02", Why: "right-recursive nullable list, empty alternative",
		Lex: stdLex + "id : 'a'-'z' ;\n",
		Prods: []Prod{
			P("L", NT("I"), NT("L")), P("L"),
			P("I", Tok("id")), P("I", Lit("["), NT("L"), Lit("]")),
		}},
	{Name: "G03", Why: "nullable chain with distinct terminals, empty in several positions",
		Lex: stdLex,
		Prods: []Prod{
			P("S", NT("A"), NT("B"), NT("C"), Lit("d")),
			P("A", Lit("a")), P("A"),
			P("B", Lit("b")), P("B"),
			P("C", Lit("c"), NT("C")), P("C"),
		}},
	{Name: "G04", Why: "LR(1) but not LALR(1): canonical look-aheads are needed",
		Lex: stdLex,
		Prods: []Prod{
			P("S", Lit("a"), NT("E"), Lit("c")), P("S", Lit("a"), NT("F"), Lit("d")),
			P("S", Lit("b"), NT("F"), Lit("c")), P("S", Lit("b"), NT("E"), Lit("d")),
			P("E", Lit("e")), P("F", Lit("e")),
		}},
	{Name: "G05", Why: "unreachable and unproductive nonterminals, unit chain",
		Lex: stdLex,
		Prods: []Prod{
			P("S", NT("A")), P("S", Lit("x"), NT("U")),
			P("A", NT("B")), P("B", Lit("b")), P("B", Lit("("), NT("A"), Lit(")")),
			P("U", Lit("u"), NT("U")),
			P("R", Lit("r")),
		}},
	{Name: "G06", Why: "a state whose item set strictly contains the item set of a state discovered earlier (same core item, one more look-ahead context)",
		Lex: stdLex,
		Prods: []Prod{
			P("S", NT("A"), Lit("x")), P("S", Lit("b"), NT("A"), Lit("x")), P("S", Lit("b"), NT("C"), Lit("y")),
			P("A", Lit("c")), P("C", Lit("c")),
		}},
	{Name: "G07", Why: "a nonterminal that is nullable only through a chain of unit productions, productions listed top-down (FIRST needs several rounds), its FIRST set used as a look-ahead",
		Lex: stdLex,
		Prods: []Prod{
			P("S", NT("X"), NT("P")),
			P("X", Lit("x")),
			P("P", NT("A"), Lit("t")), P("P", NT("A"), Lit("u"), NT("P")),
			P("A", NT("B")), P("A", Lit("b"), Lit("z")),
			P("B", NT("C")),
			P("C", NT("D")),
			P("D", Lit("b")), P("D"),
		}},
	{Name: "G09", Why: "a nullable nonterminal in the middle of a body, followed by two more symbols (FIRST of a string must stop at the first non-nullable symbol)",
		Lex: stdLex,
		Prods: []Prod{
			P("D", NT("K"), NT("O"), Lit("x"), Lit(";")),
			P("K", Lit("k")), P("K", Lit("k"), Lit("k")),
			P("O", Lit("q")), P("O"),
		}},
	{Name: "G21", Why: "a nonterminal reached in two left contexts with nested look-ahead sets, the larger context first (a later state is a strict subset of an earlier one)",
		Lex: stdLex,
		Prods: []Prod{
			P("S", NT("A"), Lit("x")), P("S", NT("A"), Lit("y")), P("S", Lit("b"), NT("A"), Lit("x")),
			P("A", Lit("a")),
		}},
	{Name: "G22", Why: "left-recursive list whose element ends in a nullable nonterminal: the same item occurs with two look-aheads and a nullable rest",
		Lex: stdLex,
		Prods: []Prod{
			P("S", NT("L")),
			P("L", NT("L"), NT("A")), P("L", NT("A")),
			P("A", NT("B"), NT("O")),
			P("B", Lit("b")),
			P("O", Lit("o")), P("O"),
		}},
	{Name: "G08", Why: "empty between terminals; mutual recursion",
		Lex: stdLex,
		Prods: []Prod{
			P("S", Lit("<"), NT("O"), Lit(">")),
			P("O", NT("P")), P("O"),
			P("P", Lit("p"), NT("Q")), P("Q", Lit("q"), NT("P")), P("Q"),
		}},
}

// WithRecordingActions returns a copy in which every alternative k carries
// << verifNode(k, $Context, []Attrib{...}) >> (terminals via $Ti, nonterminals via $i).
func (g *SynGrammar) WithRecordingActions() *SynGrammar {
	c := *g
	c.Name = g.Name + "act"
	c.Header = `import "gen/token"`
	c.Prods = make([]Prod, len(g.Prods))
	usesTok := false
	for k, p := range g.Prods {
		var args []string
		for i, s := range p.Body {
			if s.Term && !s.Error {
				args = append(args, fmt.Sprintf("$T%d", i))
				usesTok = true
			} else {
				args = append(args, fmt.Sprintf("$%d", i))
			}
		}
		p.Action = fmt.Sprintf("verifNode(%d, $Context, []Attrib{%s})", k, strings.Join(args, ", "))
		c.Prods[k] = p
	}
	if !usesTok {
		c.Header = ""
	}
	return &c
}

// RecoveryCorpus: grammars with error alternatives (C07).
var RecoveryCorpus = []*SynGrammar{
	{Name: "G14", Why: "statement list with a synchronising token after error",
		Lex: stdLex + "id : 'a'-'z' ;\n",
		Prods: []Prod{
			P("Stmts", NT("Stmts"), NT("Stmt")), P("Stmts", NT("Stmt")),
			P("Stmt", Tok("id"), Lit(";")), P("Stmt", Err(), Lit(";")),
		}},
	{Name: "G15", Why: "an alternative that is the error symbol alone, in a delimited context",
		Lex: stdLex,
		Prods: []Prod{
			P("S", Lit("("), NT("A"), Lit(")")),
			P("A", Lit("a")), P("A", Err()),
		}},
	{Name: "G17", Why: "error alternative whose state after the synchronising token still holds the error item (D6)",
		Lex: stdLex,
		Prods: []Prod{
			P("S", NT("A")), P("S", NT("S"), NT("A")),
			P("A", Lit("a"), Lit("b")), P("A", Err(), Lit("b")),
		}},
	{Name: "G19", Why: "an error alternative that may be the last thing in the input: recovery has to resynchronise on end of input",
		Lex: stdLex,
		Prods: []Prod{
			P("Ss", NT("Ss"), NT("St")), P("Ss", NT("St")),
			P("St", Lit("x"), Lit("="), Lit("x")), P("St", Err()),
		}},
	{Name: "G16", Why: "nested recovery contexts: blocks inside a list",
		Lex: stdLex,
		Prods: []Prod{
			P("L", NT("L"), NT("I")), P("L", NT("I")),
			P("I", Lit("x"), Lit(";")), P("I", Lit("{"), NT("L"), Lit("}")), P("I", Err(), Lit(";")),
		}},
}

// ConflictCorpus: grammars with LR(1) conflicts, generated with -a (C05).
var ConflictCorpus = []*SynGrammar{
	{Name: "G10", Why: "dangling else (shift/reduce)", Lex: stdLex, Flags: []string{"-a"},
		Prods: []Prod{
			P("S", Lit("if"), NT("S")), P("S", Lit("if"), NT("S"), Lit("else"), NT("S")), P("S", Lit("x")),
		}},
	{Name: "G11", Why: "ambiguous expressions (shift/reduce on both operators)", Lex: stdLex, Flags: []string{"-a"},
		Prods: []Prod{
			P("E", NT("E"), Lit("+"), NT("E")), P("E", NT("E"), Lit("*"), NT("E")), P("E", Lit("n")),
		}},
	{Name: "G12", Why: "reduce/reduce: the earlier production must win", Lex: stdLex, Flags: []string{"-a"},
		Prods: []Prod{
			P("S", NT("B"), Lit("z")), P("S", NT("A"), Lit("z")), P("S", NT("A"), Lit("y")),
			P("A", Lit("a")), P("B", Lit("a")),
		}},
	{Name: "G20", Why: "reduce/reduce between an EMPTY production declared earlier and a non-empty one, on a terminal without shift",
		Lex: stdLex, Flags: []string{"-a"},
		Prods: []Prod{
			P("S", NT("Y")), P("S", NT("X"), Lit("c"), Lit("c")),
			P("Opt"),
			P("Y", Lit("a"), NT("Opt"), Lit("c")),
			P("X", Lit("a")),
		}},
	{Name: "G13", Why: "a shift competing with two reductions", Lex: stdLex, Flags: []string{"-a"},
		Prods: []Prod{
			P("S", NT("A"), Lit("b")), P("S", NT("B"), Lit("b")), P("S", NT("C")),
			P("A", Lit("a")), P("B", Lit("a")), P("C", Lit("a"), Lit("b"), Lit("c")),
		}},
	{Name: "G26", Why: "one state expands B from two items whose look-ahead sets overlap ({a} and {a,c}); the only conflict is on the look-ahead that only the second set has",
		Lex: stdLex, Flags: []string{"-a"},
		Prods: []Prod{
			P("S", NT("B"), Lit("a"), Lit("x")), P("S", NT("B"), NT("T"), Lit("y")),
			P("T", Lit("a")), P("T", Lit("c")),
			P("B", Lit("z")), P("B", Lit("z"), Lit("c"), Lit("w")),
		}},
}

// HostileCorpus: terminal spellings that stress the name<->number tables (C10).
var HostileCorpus = []*SynGrammar{
	{Name: "G18", Why: "string literals with escapes, quotes-free raw strings, non-ASCII, keyword-like and Go-keyword spellings",
		Lex: stdLex + "id : 'a'-'z' ;\nfunc : 'f' 'n' ;\n",
		Prods: []Prod{
			P("S", Tok("id"), Lit("\\n")), P("S", Lit("a\\\\b"), Tok("id")), P("S", Lit("é")), P("S", Lit("\\x41")),
			P("S", Tok("func"), Lit("INVALID?")), P("S", Lit("%d"), Lit("␚x")), P("S", Lit("type")),
		}},
}
