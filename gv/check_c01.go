package gv

import (
	"encoding/json"
	"fmt"
	"os"
	"path/filepath"
	"strings"
	"sync"
)

func init() {
	Register("C01", checkC01)
}

// lexSpecTarget generates the lexer of a structured lexical grammar and adds the reference NFA.
func (c *Ctx) lexSpecTarget(l *LexSpec, flags ...string) (*Target, error) {
	tag := ""
	for _, f := range flags {
		tag += f
	}
	res, err := c.Generate("lexspec_"+l.Name+tag, l.BNF(), flags...)
	if err != nil {
		return nil, err
	}
	if res.Exit != 0 {
		return nil, fmt.Errorf("gocc exit %d on lexical corpus grammar %s:\n%s", res.Exit, l.Name, res.Output)
	}
	t := res.Target("lexer", "genlexer/at.go", "genlexer/c01.go")
	data, err := l.BuildNFA().HarnessData(l.Name)
	if err != nil {
		return nil, err
	}
	os.MkdirAll(filepath.Join(res.Dir, "_verifdata"), 0o755)
	f := filepath.Join(res.Dir, "_verifdata", "nfa_"+l.Name+".go")
	os.WriteFile(f, []byte(data), 0o644)
	t.Harness = append(t.Harness, f)
	return t, nil
}

type lexDump struct {
	Trans  [][]int  `json:"trans"`
	Accept []int    `json:"accept"`
	Ignore []string `json:"ignore"`
}

// lexSimJob: dumps the generated DFA natively on representative runes, searches the relation
// between DFA states and NFA state sets from (0, start) and returns the job that lets the
// engine verify it for a symbolic rune.
func (c *Ctx) lexSimJob(t *Target, l *LexSpec, name string) (Job, error) {
	nfa := l.BuildNFA()
	reps := nfa.RepRunes()
	dir := filepath.Join(t.ModDir, "_verifdata")
	var rb strings.Builder
	rb.WriteString("//go:build verif\n\npackage lexer\n\nvar verifRepRunes = []rune{")
	for _, r := range reps {
		fmt.Fprintf(&rb, "%d, ", r)
	}
	rb.WriteString("}\n")
	frep := filepath.Join(dir, "reprunes.go")
	os.WriteFile(frep, []byte(rb.String()), 0o644)
	tmp := *t
	tmp.Harness = append(append([]string{}, t.Harness...), frep, VerifRoot+"/harness/genlexer/dump.go")
	bin := filepath.Join(c.Scratch, "lexdump_"+sanitize(name)+".test")
	if err := tmp.BuildReplayBinary(bin, c.Scratch); err != nil {
		return Job{}, err
	}
	nr, err := tmp.RunReplayBinary(bin, "VerifDumpLexTables", "/dev/null")
	if nr == nil {
		return Job{}, err
	}
	m := tablesRe.FindStringSubmatch(nr.Raw)
	if m == nil {
		return Job{}, fmt.Errorf("no table dump in native output")
	}
	var d lexDump
	if err := json.Unmarshal([]byte(m[1]), &d); err != nil {
		return Job{}, err
	}
	type pair struct {
		s int
		m uint64
	}
	seen := map[pair]bool{{0, nfa.Start()}: true}
	work := []pair{{0, nfa.Start()}}
	for i := 0; i < len(work) && len(work) < 3000; i++ {
		p := work[i]
		if b := nfa.Best(p.m); b >= 0 && nfa.PatIgnored[b] {
			continue
		}
		if p.s < 0 || p.s >= len(d.Trans) {
			continue
		}
		for ri, r := range reps {
			n := d.Trans[p.s][ri]
			m2 := nfa.Step(p.m, r)
			if n >= 0 && m2 != 0 {
				q := pair{n, m2}
				if !seen[q] {
					seen[q] = true
					work = append(work, q)
				}
			}
		}
	}
	var pb strings.Builder
	pb.WriteString("//go:build verif\n\npackage lexer\n\n// candidate relation (DFA state, NFA state set)\nvar verifLexPairs = []verifLexPair{")
	for _, p := range work {
		fmt.Fprintf(&pb, "{%d, %#x}, ", p.s, p.m)
	}
	pb.WriteString("}\n")
	fp := filepath.Join(dir, "lexpairs.go")
	os.WriteFile(fp, []byte(pb.String()), 0o644)
	st := *t
	st.Harness = append(append([]string{}, t.Harness...), fp, VerifRoot+"/harness/genlexer/tablesim.go")
	return Job{
		Name:           name,
		Target:         &st,
		Run:            SymRun{Harness: "VerifLexTableSim", LoopBound: 4000},
		Bounds:         fmt.Sprintf("lexical grammar %s: every pair (%d) of the relation between generated DFA states and sets of reference NFA states, every rune in [0,0x10FFFF] (symbolic): unbounded in the length of the lexeme", l.Name, len(work)),
		RequiredCovers: []string{"end"},
	}, nil
}

func (c *Ctx) c01Jobs(maxN int, flags ...string) []Job {
	// generation is sequential (one gocc binary, cheap); the native table dumps are built in parallel
	type prep struct {
		l    *LexSpec
		t    *Target
		jobs []Job
		errs []string
	}
	var preps []*prep
	for _, l := range LexSpecs {
		if !wantedByFilter("scan " + l.Name) {
			continue
		}
		t, err := c.lexSpecTarget(l, flags...)
		if err != nil {
			c.Inconclusive = append(c.Inconclusive, err.Error())
			continue
		}
		preps = append(preps, &prep{l: l, t: t})
	}
	var wg sync.WaitGroup
	sem := make(chan struct{}, 6)
	for _, p := range preps {
		wg.Add(1)
		sem <- struct{}{}
		go func(p *prep) {
			defer wg.Done()
			defer func() { <-sem }()
			if sj, err := c.lexSimJob(p.t, p.l, fmt.Sprintf("scan %s%v tables", p.l.Name, flags)); err == nil {
				sj.MaxCoverReplays = -1
				p.jobs = append(p.jobs, sj)
			} else {
				p.errs = append(p.errs, fmt.Sprintf("%s: DFA table simulation: %v", p.l.Name, err))
			}
			top := maxN
			if c.Quick() && top > 2 && !(p.l.Name == "L04" || p.l.Name == "L07" || p.l.Name == "L10" || p.l.Name == "L09") {
				// quick tier: the table-simulation job is unbounded in lexeme length; the Scan runs only
				// have to establish the loop around the tables, 3 bytes are kept for the grammars that
				// mix accepting and ignoring states
				top = 2
			}
			for n := 0; n <= top; n++ {
				p.jobs = append(p.jobs, Job{
					Name:           fmt.Sprintf("scan %s%v N=%d", p.l.Name, flags, n),
					Target:         p.t,
					Run:            SymRun{Harness: "VerifC01Scan", Params: map[string]int{"N": n, "ABSTRACT": 0}, LoopBound: 200, LoopBounds: map[string]int{"Scan": n + 3, "verifRefScan": n + 3}},
					Bounds:         fmt.Sprintf("lexical grammar %s: every source of %d bytes (ill-formed UTF-8 included), every start offset on the decode chain", p.l.Name, n),
					RequiredCovers: []string{"end"},
				})
			}
		}(p)
	}
	wg.Wait()
	var jobs []Job
	for _, p := range preps {
		c.Inconclusive = append(c.Inconclusive, p.errs...)
		jobs = append(jobs, p.jobs...)
	}
	return jobs
}

func checkC01(c *Ctx) {
	maxN := 3
	if !c.Quick() {
		maxN = 5
	}
	var jobs []Job
	if os.Getenv("GV_RANDOM_ONLY") == "" {
		jobs = c.c01Jobs(maxN)
	}
	// random lexical grammars (sampling on the grammar axis, symbolic bytes/runes)
	nRand, randN := 2, 2
	if !c.Quick() {
		nRand, randN = 10, 3
	}
	saved := LexSpecs
	LexSpecs = RandomLexSpecs(int64(c.Seed), nRand)
	for _, l := range LexSpecs {
		c.Notes = append(c.Notes, "random lexical grammar "+l.Name+": "+oneLine(l.BNF()))
	}
	jobs = append(jobs, c.c01Jobs(randN)...)
	LexSpecs = saved
	c.BoundsText = append(c.BoundsText, fmt.Sprintf("plus %d random lexical grammars (VERIF_SEED=%d; no regular definitions, no pattern matching the empty string): DFA table simulation and Scan runs up to %d bytes", nRand, c.Seed, randN))
	c.BoundsText = append(c.BoundsText, "DFA table simulation (unbounded lexeme length): for every pair of the relation between generated DFA states and sets of reference NFA states and a SYMBOLIC rune, TransTab and the NFA step agree and ActTab is what the priority rule says for the set; the bounded Scan runs then only have to establish the Scan loop around the tables")
	c.BoundsText = append(c.BoundsText, fmt.Sprintf("%d corpus lexical grammars through the current gocc; generated Scan versus a reference lexer over /verif's own Thompson NFA (regular definitions inlined, '.' only where no explicit alternative of a live item matches, priority: syntax literal, then declaration order); one Scan from every reachable offset, sources of 0..%d arbitrary bytes; compared: token NAME (through the generated TokMap), start offset, lexeme length, lexer offset afterwards", len(LexSpecs), maxN),
		"outside the claim: patterns that match the empty string; recursive regular definitions; grammars outside the corpus; longer inputs")
	c.RunJobs(filterJobs(jobs), 4)
}

// wantedByFilter: with GV_ONLY set (development, replay) targets whose job names cannot match are
// not even generated.
func wantedByFilter(prefix string) bool {
	f := os.Getenv("GV_ONLY")
	if f == "" {
		return true
	}
	for _, alt := range strings.Split(f, "|") {
		if strings.HasPrefix(alt, prefix) || strings.HasPrefix(prefix, alt) {
			return true
		}
	}
	return false
}
