package gv

import (
	"fmt"
	"os"
	"path/filepath"
)

func init() {
	Register("C01", checkC01)
}

// lexSpecTarget generates the lexer of a structured lexical grammar and adds the reference NFA.
func (c *Ctx) lexSpecTarget(l *LexSpec, flags ...string) (*Target, error) {
	tag := ""
	for _, f := range flags {
		tag += f
	}
	res, err := c.Generate("lexspec_"+l.Name+tag, l.BNF(), flags...)
	if err != nil {
		return nil, err
	}
	if res.Exit != 0 {
		return nil, fmt.Errorf("gocc exit %d on lexical corpus grammar %s:\n%s", res.Exit, l.Name, res.Output)
	}
	t := res.Target("lexer", "genlexer/at.go", "genlexer/c01.go")
	data, err := l.BuildNFA().HarnessData(l.Name)
	if err != nil {
		return nil, err
	}
	os.MkdirAll(filepath.Join(res.Dir, "_verifdata"), 0o755)
	f := filepath.Join(res.Dir, "_verifdata", "nfa_"+l.Name+".go")
	os.WriteFile(f, []byte(data), 0o644)
	t.Harness = append(t.Harness, f)
	return t, nil
}

func (c *Ctx) c01Jobs(maxN int, flags ...string) []Job {
	var jobs []Job
	for _, l := range LexSpecs {
		t, err := c.lexSpecTarget(l, flags...)
		if err != nil {
			c.Inconclusive = append(c.Inconclusive, err.Error())
			continue
		}
		for n := 0; n <= maxN; n++ {
			jobs = append(jobs, Job{
				Name:           fmt.Sprintf("scan %s%v N=%d", l.Name, flags, n),
				Target:         t,
				Run:            SymRun{Harness: "VerifC01Scan", Params: map[string]int{"N": n, "ABSTRACT": 0}, LoopBound: 24, LoopBounds: map[string]int{"Scan": n + 3, "verifRefScan": n + 3}},
				Bounds:         fmt.Sprintf("lexical grammar %s: every source of %d bytes (ill-formed UTF-8 included), every start offset on the decode chain", l.Name, n),
				RequiredCovers: []string{"end"},
			})
		}
	}
	return jobs
}

func checkC01(c *Ctx) {
	maxN := 3
	if !c.Quick() {
		maxN = 5
	}
	jobs := c.c01Jobs(maxN)
	c.BoundsText = append(c.BoundsText, fmt.Sprintf("%d corpus lexical grammars through the current gocc; generated Scan versus a reference lexer over /verif's own Thompson NFA (regular definitions inlined, '.' only where no explicit alternative of a live item matches, priority: syntax literal, then declaration order); one Scan from every reachable offset, sources of 0..%d arbitrary bytes; compared: token NAME (through the generated TokMap), start offset, lexeme length, lexer offset afterwards", len(LexSpecs), maxN),
		"outside the claim: patterns that match the empty string; recursive regular definitions; grammars outside the corpus; longer inputs")
	c.RunJobs(filterJobs(jobs), 4)
}
