package gv

import (
	"fmt"
	"os"
	"path/filepath"

	"golang.org/x/tools/go/ssa"

	"verif/gosym/engine"
)

func init() {
	Register("C04", checkC04)
}

func actionKernelJobs(c *Ctx) []Job {
	t := repoTarget("internal/parser/lr1/items", "items", "lr1items/c0405.go")
	maxK := 3
	if !c.Quick() {
		maxK = 4
	}
	var jobs []Job
	for k := 1; k <= maxK; k++ {
		jobs = append(jobs, Job{
			Name:           fmt.Sprintf("action-kernel K=%d", k),
			Target:         t,
			Run:            SymRun{Harness: "VerifActionKernel", Params: map[string]int{"K": k, "MODE": 0}, LoopBound: 16, ForkFuncs: []string{"Action", "action"}},
			Bounds:         fmt.Sprintf("item set of exactly %d arbitrary items over a 3-terminal alphabet, arbitrary symbol, arbitrary transition targets, in every order", k),
			RequiredCovers: []string{"end"},
		})
		if k >= 2 {
			jobs = append(jobs, Job{
				Name:           fmt.Sprintf("action-kernel accept-conflict K=%d", k),
				Target:         t,
				Run:            SymRun{Harness: "VerifActionKernel", Params: map[string]int{"K": k, "MODE": 1}, LoopBound: 16, ForkFuncs: []string{"Action", "action"}},
				AllowPanic:     []string{"Cannot have LR1 conflict with Accept", "@action.go"},
				Bounds:         fmt.Sprintf("%d items among which the accepting item competes with a reduction or shift: Action must panic (gocc then exits non-zero)", k),
				RequiredCovers: []string{},
			})
		}
	}
	return jobs
}

// exitStub: os.Exit asserts the harness' expectation and ends the path.
func exitStub(pkgPath string) engine.Intrinsic {
	return func(e *engine.Engine, st *engine.St, args []engine.Value, call *ssa.CallCommon) (engine.Value, bool) {
		exp := e.ReadGlobal(st, pkgPath, "verifExpectExit").(*engine.T)
		code := args[0].(*engine.T)
		e.AssertAt(st, e.S.And(exp, e.S.Not(e.S.Eq(code, e.S.Const(0, code.W)))), "gocc exits (non-zero) only if conflicts were found and -a is off")
		e.CoverAt(st, "exit")
		e.Kill(st)
		return nil, true
	}
}

func checkC04(c *Ctx) {
	jobs := actionKernelJobs(c)
	tm := &Target{ModDir: "/repo", PkgDir: "/repo", PkgPath: RepoMod, PkgName: "main", Harness: []string{VerifRoot + "/harness/main/c04.go"}}
	for _, nconf := range []int{0, 1, 2} {
		req := []string{"returned"}
		if nconf > 0 {
			req = append(req, "exit")
		}
		jobs = append(jobs, Job{
			Name:            fmt.Sprintf("handleConflicts rows=%d", nconf),
			Target:          tm,
			Run:             SymRun{Harness: "VerifHandleConflicts", Params: map[string]int{"NCONF": nconf}, LoopBound: 16, Intrinsics: map[string]engine.Intrinsic{"os.Exit": exitStub(RepoMod)}},
			Bounds:          fmt.Sprintf("main.handleConflicts with %d conflicting rows, -a arbitrary", nconf),
			RequiredCovers:  req,
			MaxCoverReplays: -1,
		})
	}
	// supplementary pipeline cross-check (sampling on the grammar axis, no symbolic variable):
	// gocc's exit status without -a against the conflict verdict of /verif's reference LR(1)
	nRand := 6
	if !c.Quick() {
		nRand = 40
	}
	agree := 0
	var sampled []string
	for _, conflicting := range []bool{false, true} {
		for _, g := range RandomGrammars(int64(c.Seed)+int64(len(sampled)), nRand/2, conflicting) {
			g.Flags = nil
			res, err := c.Generate("c04_"+g.Name, g.BNF(false))
			if err != nil {
				c.Inconclusive = append(c.Inconclusive, "running gocc on "+g.Name+": "+err.Error())
				continue
			}
			sampled = append(sampled, fmt.Sprintf("%s conflict=%v gocc-exit=%d", g.Name, conflicting, res.Exit))
			if (res.Exit != 0) == conflicting {
				agree++
				continue
			}
			p := filepath.Join(VerifRoot, "replays", "C04", "random_"+g.Name+".bnf")
			os.MkdirAll(filepath.Dir(p), 0o755)
			os.WriteFile(p, []byte(g.BNF(false)), 0o644)
			c.Violations = append(c.Violations, Finding{Job: "pipeline " + g.Name, Msg: fmt.Sprintf("gocc exits with status %d but the canonical LR(1) automaton of this grammar has conflicts=%v", res.Exit, conflicting), Replay: p, Confirm: true, What: "conflict verdict"})
		}
	}
	c.Extra["pipeline_crosscheck_sampled_grammars"] = sampled
	c.Extra["pipeline_crosscheck_agreements"] = agree
	c.BoundsText = append(c.BoundsText, fmt.Sprintf("supplementary, NOT solver-decided: %d random grammars (seed %d): gocc's exit status without -a agrees with the conflict verdict of /verif's reference LR(1) construction", len(sampled), c.Seed))
	c.BoundsText = append(c.BoundsText, "kernel level only: (i) (*ItemSet).Action on every item set of up to K arbitrary items in every order (conflict reported iff two different actions compete; accept competing with a reduction is refused); (ii) main.handleConflicts exits non-zero iff conflicts were found and -a is off",
		"outside the claim: that closure/goto produce exactly the states of the canonical LR(1) automaton (the grammar axis cannot be made symbolic: item sets are maps keyed by fmt-built strings); covered only indirectly on the corpus by C02/C05/C06")
	c.Assumptions = append(c.Assumptions, "fmt.Sprintf is an opaque function: the conflict list is only observed through len(conflicts) > 0", "os.Exit ends the path; native replay of paths ending in os.Exit is not possible and is skipped")
	c.RunJobs(filterJobs(jobs), 4)
}
