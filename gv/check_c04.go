package gv

import (
	"fmt"
	"os"
	"path/filepath"
	"strings"

	"golang.org/x/tools/go/ssa"

	"verif/gosym/engine"
)

func init() {
	Register("C04", checkC04)
}

func actionKernelJobs(c *Ctx) []Job {
	t := repoTarget("internal/parser/lr1/items", "items", "lr1items/c0405.go")
	maxK := 3
	if !c.Quick() {
		maxK = 4
	}
	var jobs []Job
	for k := 1; k <= maxK; k++ {
		jobs = append(jobs, Job{
			Name:           fmt.Sprintf("action-kernel K=%d", k),
			Target:         t,
			Run:            SymRun{Harness: "VerifActionKernel", Params: map[string]int{"K": k, "MODE": 0}, LoopBound: 16, ForkFuncs: []string{"Action", "action"}},
			Bounds:         fmt.Sprintf("item set of exactly %d arbitrary items over a 3-terminal alphabet, arbitrary symbol, arbitrary transition targets, in every order", k),
			ReplayParams:   map[string]int{"REPEAT": 50},
			RequiredCovers: []string{"end"},
		})
		if k >= 2 {
			jobs = append(jobs, Job{
				Name:           fmt.Sprintf("action-kernel accept-conflict K=%d", k),
				Target:         t,
				Run:            SymRun{Harness: "VerifActionKernel", Params: map[string]int{"K": k, "MODE": 1}, LoopBound: 16, ForkFuncs: []string{"Action", "action"}},
				AllowPanic:     []string{"Cannot have LR1 conflict with Accept", "@action.go"},
				Bounds:         fmt.Sprintf("%d items among which the accepting item competes with a reduction or shift: Action must panic (gocc then exits non-zero)", k),
				RequiredCovers: []string{},
			})
		}
	}
	return jobs
}

// exitStub: os.Exit asserts the harness' expectation and ends the path.
func exitStub(pkgPath string) engine.Intrinsic {
	return func(e *engine.Engine, st *engine.St, args []engine.Value, call *ssa.CallCommon) (engine.Value, bool) {
		exp := e.ReadGlobal(st, pkgPath, "verifExpectExit").(*engine.T)
		code := args[0].(*engine.T)
		e.AssertAt(st, e.S.And(exp, e.S.Not(e.S.Eq(code, e.S.Const(0, code.W)))), "gocc exits (non-zero) only if conflicts were found and -a is off")
		e.CoverAt(st, "exit")
		e.Kill(st)
		return nil, true
	}
}

func checkC04(c *Ctx) {
	jobs := actionKernelJobs(c)
	tm := &Target{ModDir: RepoRoot, PkgDir: RepoRoot, PkgPath: RepoMod, PkgName: "main", Harness: []string{VerifRoot + "/harness/main/c04.go"}}
	for _, nconf := range []int{0, 1, 2} {
		req := []string{"returned"}
		if nconf > 0 {
			req = append(req, "exit")
		}
		jobs = append(jobs, Job{
			Name:            fmt.Sprintf("handleConflicts rows=%d", nconf),
			Target:          tm,
			Run:             SymRun{Harness: "VerifHandleConflicts", Params: map[string]int{"NCONF": nconf}, LoopBound: 16, Intrinsics: map[string]engine.Intrinsic{"os.Exit": exitStub(RepoMod)}},
			Bounds:          fmt.Sprintf("main.handleConflicts with %d conflicting rows, -a arbitrary", nconf),
			RequiredCovers:  req,
			MaxCoverReplays: -1,
		})
	}
	jobs = append(jobs, c04PipelineJobs(c)...)
	// supplementary pipeline cross-check (sampling on the grammar axis, no symbolic variable):
	// gocc's exit status without -a against the conflict verdict of /verif's reference LR(1)
	nRand := 6
	if !c.Quick() {
		nRand = 40
	}
	agree := 0
	var sampled []string
	for _, conflicting := range []bool{false, true} {
		for _, g := range RandomGrammars(int64(c.Seed)+int64(len(sampled)), nRand/2, conflicting) {
			g.Flags = nil
			res, err := c.Generate("c04_"+g.Name, g.BNF(false))
			if err != nil {
				c.Inconclusive = append(c.Inconclusive, "running gocc on "+g.Name+": "+err.Error())
				continue
			}
			sampled = append(sampled, fmt.Sprintf("%s conflict=%v gocc-exit=%d", g.Name, conflicting, res.Exit))
			if (res.Exit != 0) == conflicting {
				agree++
				continue
			}
			p := filepath.Join(VerifRoot, "replays", "C04", "random_"+g.Name+".bnf")
			os.MkdirAll(filepath.Dir(p), 0o755)
			os.WriteFile(p, []byte(g.BNF(false)), 0o644)
			c.Violations = append(c.Violations, Finding{Job: "pipeline " + g.Name, Msg: fmt.Sprintf("gocc exits with status %d but the canonical LR(1) automaton of this grammar has conflicts=%v", res.Exit, conflicting), Replay: p, Confirm: true, What: "conflict verdict"})
		}
	}
	c.Extra["pipeline_crosscheck_sampled_grammars"] = sampled
	c.Extra["pipeline_crosscheck_agreements"] = agree
	c.BoundsText = append(c.BoundsText, fmt.Sprintf("supplementary, NOT solver-decided: %d random grammars (seed %d): gocc's exit status without -a agrees with the conflict verdict of /verif's reference LR(1) construction", len(sampled), c.Seed))
	c.BoundsText = append(c.BoundsText, "pipeline level (solver-decided over the configuration axis): the real main() executed symbolically on every corpus grammar with conflicts, on conflict-free corpus grammars, on the accept/reduce grammar S : S | \"a\" and on sampled variations of corpus grammars, all seven boolean flags symbolic: it returns normally iff /verif's reference canonical LR(1) construction finds no conflict or -a is set, otherwise os.Exit(non-zero); the accept conflict panics in both modes. FIRST sets, LR(1) item sets, action rows and conflict lists (plain and -zip) are the shipped code; templates and file output stubbed")
	c.BoundsText = append(c.BoundsText, "kernel level: (i) (*ItemSet).Action on every item set of up to K arbitrary items in every order (conflict reported iff two different actions compete; accept competing with a reduction is refused); (ii) main.handleConflicts exits non-zero iff conflicts were found and -a is off",
		"outside the claim: grammars other than the corpus and the sampled ones at pipeline level (the grammar axis cannot be made symbolic: item sets are maps keyed by fmt-built strings; for the listed grammars the table-simulation lemmas of C02/C05 show that the generated tables ARE the canonical automaton)")
	c.Assumptions = append(c.Assumptions, "kernel jobs: fmt.Sprintf is an opaque function, the conflict list is only observed through len(conflicts) > 0; pipeline jobs: fmt text is computed concretely (ConcreteFmt model)", "pipeline jobs: config.New replaced by arbitrary booleans behind the config.Config interface (no_lexer with debug_lexer excluded, as the flag parser refuses it); text/template, go/format and file output stubbed", "os.Exit ends the path; native replay of paths ending in os.Exit is not possible and is skipped")
	c.RunJobs(filterJobs(jobs), 4)
}

// c04PipelineJobs: the real main() executed symbolically (all boolean flags symbolic) on corpus
// and sampled grammars; the expected verdict comes from /verif's reference LR(1) construction.
func c04PipelineJobs(c *Ctx) []Job {
	var gs []*SynGrammar
	for _, g := range ConflictCorpus {
		gs = append(gs, g)
	}
	for _, g := range SynCorpus {
		if g.Name == "G01" || g.Name == "G02" || g.Name == "G04" || g.Name == "G07" || !c.Quick() {
			gs = append(gs, g)
		}
	}
	gs = append(gs, &SynGrammar{Name: "GACC", Why: "the start symbol derives itself: accept competes with a reduction", Lex: stdLex,
		Prods: []Prod{{Head: "S", Body: []Sym{NT("S")}}, {Head: "S", Body: []Sym{Lit("a")}}}})
	nRand := 2
	if !c.Quick() {
		nRand = 8
	}
	gs = append(gs, VariedGrammars(int64(c.Seed)+77, nRand, false)...)
	gs = append(gs, VariedGrammars(int64(c.Seed)+78, nRand, true)...)
	var b strings.Builder
	b.WriteString("//go:build verif\n\npackage main\n\nvar verifC04Grammars = []verifC04Grammar{\n")
	for _, g := range gs {
		r := BuildRefLR(g)
		acc := false
		for _, row := range r.Actions {
			for _, cands := range row {
				if len(cands) > 1 {
					for _, a := range cands {
						if a == actAccept {
							acc = true
						}
					}
				}
			}
		}
		fmt.Fprintf(&b, "\t{%q, %v, %v, %q},\n", g.Name, r.Conflict, acc, g.BNF(false))
	}
	b.WriteString("}\n")
	dir, _ := os.MkdirTemp(c.Scratch, "c04data")
	data := filepath.Join(dir, "c04data.go")
	os.WriteFile(data, []byte(b.String()), 0o644)
	tm := &Target{ModDir: RepoRoot, PkgDir: RepoRoot, PkgPath: RepoMod, PkgName: "main", Harness: []string{VerifRoot + "/harness/main/c04.go", VerifRoot + "/harness/main/c14.go", VerifRoot + "/harness/main/c04pipe.go", data}}
	exit := func(e *engine.Engine, st *engine.St, args []engine.Value, call *ssa.CallCommon) (engine.Value, bool) {
		conflict := e.ReadGlobal(st, RepoMod, "verifC04Conflict").(*engine.T)
		auto := e.ReadGlobal(st, RepoMod, "verifC04Auto").(*engine.T)
		code := args[0].(*engine.T)
		e.AssertAt(st, e.S.Not(e.S.Eq(code, e.S.Const(0, code.W))), "an early exit has a non-zero status")
		e.AssertAt(st, e.S.And(conflict, e.S.Not(auto)), "gocc exits early only if the grammar has LR(1) conflicts and -a is off")
		e.CoverAt(st, "exit")
		e.Kill(st)
		return nil, true
	}
	zero := func(e *engine.Engine, st *engine.St, args []engine.Value, call *ssa.CallCommon) (engine.Value, bool) {
		res := call.Signature().Results()
		switch res.Len() {
		case 0:
			return nil, true
		case 1:
			return e.Zero(res.At(0).Type()), true
		}
		return e.Zero(res), true
	}
	pg := RepoMod + "/internal/parser/gen/golang."
	intr := map[string]engine.Intrinsic{
		"os.Exit":                                  exit,
		RepoMod + "/internal/config.New":           redirectTo(RepoMod, "verifConfigNew"),
		RepoMod + "/internal/lexer/gen/golang.Gen": zero,
		RepoMod + "/internal/token/gen.Gen":        zero,
		RepoMod + "/internal/util/gen.Gen":         zero,
		RepoMod + "/internal/io.WriteFileString":   zero,
		RepoMod + "/internal/io.WriteFile":         zero,
		"flag.PrintDefaults":                       zero,
		pg + "GenAction":                           zero,
		pg + "GenContext":                          zero,
		pg + "GenErrors":                           zero,
		pg + "GenGotoTable":                        zero,
		pg + "GenParser":                           zero,
		pg + "GenProductionsTable":                 zero,
		pg + "genEnc":                              zero,
		// number of characters of an int (uses math.Log10): computed on the concrete argument
		pg + "nbytes": func(e *engine.Engine, st *engine.St, args []engine.Value, call *ssa.CallCommon) (engine.Value, bool) {
			x, ok := args[0].(*engine.T)
			if !ok || !x.IsConst() {
				return e.IntV(1, 64), true
			}
			return e.IntV(int64(len(fmt.Sprint(x.Int()))), 64), true
		},
		"text/template.New":                 zero,
		"(*text/template.Template).Parse":   zero,
		"(*text/template.Template).Execute": zero,
	}
	var jobs []Job
	for i, g := range gs {
		r := BuildRefLR(g)
		req := []string{"generation completed"}
		if r.Conflict {
			req = append(req, "exit")
		}
		if g.Name == "GACC" {
			req = []string{"rejected by panic @action.go:71"}
		}
		jobs = append(jobs, Job{
			Name:   fmt.Sprintf("main pipeline %s", g.Name),
			Target: tm,
			Run: SymRun{Harness: "VerifC04Main", Params: map[string]int{"ONLY": i}, LoopBound: 20000, ConcreteFmt: true, ForkFuncs: []string{"VerifC04Main", "main", "handleConflicts", "Gen", "GenActionTable"}, Intrinsics: intr,
				InitPkgs: func(p string) bool {
					return p == "sort" || p == "unicode" || p == "unicode/utf8" || p == "strconv" || (strings.HasPrefix(p, RepoMod) && !strings.Contains(p, "/gen"))
				}},
			AllowPanic:          []string{"panic @", "panic: "},
			PanicIsCover:        true,
			TimeoutS:            900,
			ConfirmOnlyFailures: true,
			MaxCoverReplays:     -1,
			Bounds:              fmt.Sprintf("the real main() on grammar %s (%s; reference LR(1): %d states, conflicts=%v) with all seven boolean flags symbolic (no_lexer together with debug_lexer excluded: refused by the flag parser): FIRST sets, LR(1) item sets, action rows with conflict lists (plain and -zip variant) and handleConflicts executed as shipped; template rendering and file output stubbed", g.Name, g.Why, len(r.States), r.Conflict),
			RequiredCovers:      req,
		})
	}
	return jobs
}
