package gv

import (
	"encoding/json"
	"fmt"
	"os"
	"sort"
)

// CheckFunc builds and runs the jobs of one property.
type CheckFunc func(c *Ctx)

var Checks = map[string]CheckFunc{}

func Register(id string, f CheckFunc) { Checks[id] = f }

func CheckIDs() []string {
	var ids []string
	for id := range Checks {
		ids = append(ids, id)
	}
	sort.Strings(ids)
	return ids
}

// RunCheck runs one property check and returns the process exit code.
func RunCheck(id, tier string, seed int) int {
	f, ok := Checks[id]
	if !ok {
		fmt.Printf("no check registered for %s\n", id)
		return 2
	}
	c := NewCtx(id, tier, seed)
	defer c.Cleanup()
	f(c)
	return c.Finish()
}

const RepoMod = "github.com/goccmack/gocc"

func repoTarget(rel, name string, harness ...string) *Target {
	t := &Target{ModDir: "/repo", PkgDir: "/repo/" + rel, PkgPath: RepoMod + "/" + rel, PkgName: name}
	for _, h := range harness {
		t.Harness = append(t.Harness, VerifRoot+"/harness/"+h)
	}
	return t
}

func (c *Ctx) Quick() bool { return c.Tier != "thorough" }

// ReplayFileCmd re-runs a saved counterexample natively and prints the outcome.
func ReplayFileCmd(path string) int {
	fmt.Println("replay of", path, "is done through the owning check; see replay_cmd_template in MANIFEST.json")
	return 0
}

// DebugReplay builds the natively compiled harness for a generated-parser grammar and runs a
// replay file (used while developing harnesses).
func DebugReplay(grammar, replay string) {
	c := NewCtx("DBG", "quick", 0)
	defer c.Cleanup()
	var g *SynGrammar
	for _, x := range append(append([]*SynGrammar{}, SynCorpus...), RecoveryCorpus...) {
		if x.Name == grammar {
			g = x
		}
	}
	t, err := c.parserTarget(g.WithRecordingActions(), true, append(parserHarness, "genparser/c07.go")...)
	if err != nil {
		fmt.Println(err)
		return
	}
	bin, err := c.replayBin(t)
	if err != nil {
		fmt.Println(err)
		return
	}
	var rf ReplayFile
	b, _ := os.ReadFile(replay)
	json.Unmarshal(b, &rf)
	nr, err := t.RunReplayBinary(bin, rf.Harness, replay)
	fmt.Println(err)
	if nr != nil {
		fmt.Println(nr.Raw)
	}
}
