package gv

import (
	"encoding/json"
	"fmt"
	"os"
	"path/filepath"
	"sort"
)

// CheckFunc builds and runs the jobs of one property.
type CheckFunc func(c *Ctx)

var Checks = map[string]CheckFunc{}

func Register(id string, f CheckFunc) { Checks[id] = f }

func CheckIDs() []string {
	var ids []string
	for id := range Checks {
		ids = append(ids, id)
	}
	sort.Strings(ids)
	return ids
}

// RunCheck runs one property check and returns the process exit code.
func RunCheck(id, tier string, seed int) int {
	f, ok := Checks[id]
	if !ok {
		fmt.Printf("no check registered for %s\n", id)
		return 2
	}
	c := NewCtx(id, tier, seed)
	defer c.Cleanup()
	f(c)
	return c.Finish()
}

const RepoMod = "github.com/goccmack/gocc"

// RepoRoot is the tree under test: /repo, unless GV_REPO names a scratch copy (used only to try
// seeded changes without touching /repo while other checks are running).
var RepoRoot = func() string {
	if r := os.Getenv("GV_REPO"); r != "" {
		return r
	}
	return "/repo"
}()

func repoTarget(rel, name string, harness ...string) *Target {
	t := &Target{ModDir: RepoRoot, PkgDir: RepoRoot + "/" + rel, PkgPath: RepoMod + "/" + rel, PkgName: name}
	for _, h := range harness {
		t.Harness = append(t.Harness, VerifRoot+"/harness/"+h)
	}
	return t
}

func (c *Ctx) Quick() bool { return c.Tier != "thorough" }

// ReplayFileCmd re-runs the job that produced a saved counterexample (it rebuilds the target from
// /repo's current tree, so generated code is regenerated) and runs the saved values through the
// natively compiled harness. Exit 1 if the failure reproduces, 0 if it does not.
func ReplayFileCmd(path string) int {
	if abs, err := filepath.Abs(path); err == nil {
		path = abs
	}
	b, err := os.ReadFile(path)
	if err != nil {
		fmt.Println(err)
		return 2
	}
	var rf ReplayFile
	if err := json.Unmarshal(b, &rf); err != nil || rf.Check == "" {
		fmt.Println("not a replay file of this framework:", path)
		return 2
	}
	f, ok := Checks[rf.Check]
	if !ok {
		fmt.Println("unknown check", rf.Check)
		return 2
	}
	os.Setenv("GV_ONLY", rf.Job)
	c := NewCtx(rf.Check, "quick", 0)
	defer c.Cleanup()
	c.ReplayOnly = &rf
	c.ReplayPath = path
	f(c)
	if c.ReplayResult == nil {
		fmt.Println("the job of this replay file is not part of the check any more:", rf.Job)
		return 2
	}
	nr := c.ReplayResult
	fmt.Printf("native replay of %s (%s / %s): failures=%v panic=%q assume_failed=%d\n", path, rf.Check, rf.Job, nr.Failures, nr.Panic, nr.AssumeFailed)
	if len(nr.Failures) > 0 || (nr.Panic != "" && !c.ReplayOnlyFailures) {
		fmt.Printf("VIOLATION property=%s replay=%s\n", rf.Check, path)
		return 1
	}
	fmt.Println("the saved input does not fail on the current tree")
	return 0
}

// DebugReplay builds the natively compiled harness for a generated-parser grammar and runs a
// replay file (used while developing harnesses).
func DebugReplay(grammar, replay string) {
	c := NewCtx("DBG", "quick", 0)
	defer c.Cleanup()
	var g *SynGrammar
	for _, x := range append(append([]*SynGrammar{}, SynCorpus...), RecoveryCorpus...) {
		if x.Name == grammar {
			g = x
		}
	}
	t, err := c.parserTarget(g.WithRecordingActions(), true, append(parserHarness, "genparser/c07.go")...)
	if err != nil {
		fmt.Println(err)
		return
	}
	bin, err := c.replayBin(t)
	if err != nil {
		fmt.Println(err)
		return
	}
	var rf ReplayFile
	b, _ := os.ReadFile(replay)
	json.Unmarshal(b, &rf)
	nr, err := t.RunReplayBinary(bin, rf.Harness, replay)
	fmt.Println(err)
	if nr != nil {
		fmt.Println(nr.Raw)
	}
}
