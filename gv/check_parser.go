package gv

import (
	"fmt"
	"os"
	"path/filepath"
)

func init() {
	Register("C02", checkC02)
}

// parserTarget generates the grammar and returns the parser package target with the harness
// files plus the generated grammar-data file.
func (c *Ctx) parserTarget(g *SynGrammar, withActions bool, harness ...string) (*Target, error) {
	flags := append([]string{}, g.Flags...)
	res, err := c.Generate("syn_"+g.Name, g.BNF(withActions), flags...)
	if err != nil {
		return nil, err
	}
	if res.Exit != 0 {
		return nil, fmt.Errorf("gocc exit %d on corpus grammar %s:\n%s", res.Exit, g.Name, res.Output)
	}
	t := res.Target("parser", harness...)
	os.MkdirAll(filepath.Join(res.Dir, "_verifdata"), 0o755)
	data := filepath.Join(res.Dir, "_verifdata", "data_"+g.Name+".go")
	os.WriteFile(data, []byte(g.HarnessData(false)), 0o644)
	t.Harness = append(t.Harness, data)
	return t, nil
}

func checkC02(c *Ctx) {
	maxN := 4
	if !c.Quick() {
		maxN = 6
	}
	var jobs []Job
	for _, g := range SynCorpus {
		t, err := c.parserTarget(g, false, "genparser/common.go", "genparser/c02.go", "genparser/dbg.go")
		if err != nil {
			c.Inconclusive = append(c.Inconclusive, err.Error())
			continue
		}
		if os.Getenv("GV_DBG") != "" {
			jobs = append(jobs, Job{Name: "dbg " + g.Name, Target: t, Run: SymRun{Harness: "VerifDbg", LoopBound: 64}})
		}
		for n := 0; n <= maxN; n++ {
			jobs = append(jobs, Job{
				Name:           fmt.Sprintf("accept %s N=%d", g.Name, n),
				Target:         t,
				Run:            SymRun{Harness: "VerifC02Accept", Params: map[string]int{"N": n}, LoopBound: 64, LoopBounds: map[string]int{"Parse": 6*(n+1) + 4}, ForkFuncs: []string{"Parse", "VerifC02Accept"}},
				Bounds:         fmt.Sprintf("grammar %s, every sequence of exactly %d terminal tokens; Parse loop unwound %d times with unwinding assertion (= termination within that many steps)", g.Name, n, 6*(n+1)+4),
				RequiredCovers: []string{"end"},
			})
		}
	}
	c.BoundsText = append(c.BoundsText, fmt.Sprintf("corpus grammars %d (conflict-free), real generated tables and Parse; token sequences of length 0..%d over the grammar's terminals, symbolic; oracle: CYK over /verif's own representation of the grammar", len(SynCorpus), maxN),
		"outside the claim: grammars outside the corpus, longer inputs, scanners returning token types outside the terminal range")
	c.RunJobs(filterJobs(jobs), 4)
}

func filterJobs(jobs []Job) []Job {
	f := os.Getenv("GV_ONLY")
	if f == "" {
		return jobs
	}
	var js []Job
	for _, j := range jobs {
		if len(j.Name) >= len(f) && j.Name[:len(f)] == f {
			js = append(js, j)
		}
	}
	return js
}
