package gv

import (
	"fmt"
	"os"
	"path/filepath"
	"strings"
)

func init() {
	Register("C02", checkC02)
	Register("C03", checkC03)
	Register("C06", checkC06)
	Register("C07", checkC07)
	Register("C05", checkC05)
	Register("C10", checkC10)
}

func checkC10(c *Ctx) {
	type cfg struct {
		g     *SynGrammar
		flags []string
		tag   string
		extra int
	}
	var cfgs []cfg
	for _, g := range HostileCorpus {
		cfgs = append(cfgs, cfg{g, nil, "combined", 0})
	}
	unref := *SynCorpus[0]
	unref.Name = "G01u"
	unref.Lex = unref.Lex + "unused : 'u' 'n' ;\nalso : '#' ;\n"
	unref.ExtraToks = []string{"unused", "also"}
	cfgs = append(cfgs, cfg{SynCorpus[0], nil, "combined", 0}, cfg{SynCorpus[0], []string{"-no_lexer"}, "no_lexer", 0},
		cfg{RecoveryCorpus[0], nil, "with-error-symbol", 1}, cfg{SynCorpus[0], []string{"-v"}, "v", 0},
		cfg{&unref, nil, "unreferenced-tokens", 0}, cfg{&unref, []string{"-v"}, "unreferenced-tokens-v", 0},
		cfg{&unref, []string{"-v", "-zip", "-debug_lexer", "-debug_parser"}, "unreferenced-tokens-allflags", 0})
	var jobs []Job
	for _, cf := range cfgs {
		g := *cf.g
		g.Flags = append(append([]string{}, g.Flags...), cf.flags...)
		g.Name = cf.g.Name + cf.tag
		res, err := c.Generate("tok_"+g.Name, g.BNF(false), g.Flags...)
		if err != nil || res.Exit != 0 {
			c.Inconclusive = append(c.Inconclusive, fmt.Sprintf("gocc failed on %s: %v", g.Name, err))
			continue
		}
		t := res.Target("token", "gentoken/c10.go")
		os.MkdirAll(filepath.Join(res.Dir, "_verifdata"), 0o755)
		data := filepath.Join(res.Dir, "_verifdata", "tokdata.go")
		os.WriteFile(data, []byte(g.HarnessDataPkg("token", false)), 0o644)
		t.Harness = append(t.Harness, data)
		jobs = append(jobs, Job{
			Name:   fmt.Sprintf("bijection %s %s", cf.g.Name, cf.tag),
			Target: t,
			Run:    SymRun{Harness: "VerifC10Bijection", Params: map[string]int{"EXTRA": cf.extra}, LoopBound: 32},
			Bounds: fmt.Sprintf("grammar %s (%s): every number in range, every terminal name, every unknown name of up to 3 arbitrary bytes", cf.g.Name, cf.tag),
		})
	}
	// lexer-only file, plain and with -v
	for _, lf := range [][]string{nil, {"-v"}} {
		res, err := c.Generate(fmt.Sprintf("tok_lexonly%v", lf), "!ws : ' ' ;\nid : 'a'-'z' ;\nnum : '0'-'9' ;\n", lf...)
		if err == nil && res.Exit == 0 {
			t := res.Target("token", "gentoken/c10.go")
			os.MkdirAll(filepath.Join(res.Dir, "_verifdata"), 0o755)
			data := filepath.Join(res.Dir, "_verifdata", "tokdata.go")
			os.WriteFile(data, []byte("//go:build verif\n\npackage token\n\nvar verifTermNames = []string{\"id\", \"num\"}\n"), 0o644)
			t.Harness = append(t.Harness, data)
			jobs = append(jobs, Job{Name: fmt.Sprintf("bijection lexer-only%v", lf), Target: t, Run: SymRun{Harness: "VerifC10Bijection", LoopBound: 32}, Bounds: fmt.Sprintf("lexer-only grammar file, flags %v", lf)})
		} else {
			c.Inconclusive = append(c.Inconclusive, fmt.Sprintf("gocc failed on the lexer-only grammar: %v", err))
		}
	}
	// "the parser's tables are indexed by exactly these numbers": table simulation through the
	// generated TokMap (terminal NAMES on the reference side) for grammars whose terminal list has
	// entries after the empty keyword, unreferenced tokens, and hostile spellings
	g10 := &SynGrammar{Name: "G24", Why: "terminals first used after the empty keyword, and a token the syntax part never uses", Lex: stdLex + "id : 'a'-'z' ;\nnum : '0'-'9' ;\ncomment : '#' ;\n", ExtraToks: []string{"comment"},
		Prods: []Prod{P("List"), P("List", NT("List"), NT("Item")), P("Item", Tok("id")), P("Item", Tok("num"), Lit("!"))}}
	for _, g := range []*SynGrammar{g10, SynCorpus[1], HostileCorpus[0]} {
		t, err := c.parserTarget(g, false, parserHarness...)
		if err != nil {
			c.Inconclusive = append(c.Inconclusive, err.Error())
			continue
		}
		r := withRefTables(t, g)
		if sj, err := c.simJob(t, g, r, "parser-columns "+g.Name, SymRun{}); err == nil {
			jobs = append(jobs, sj)
		} else {
			c.Inconclusive = append(c.Inconclusive, fmt.Sprintf("%s: table simulation: %v", g.Name, err))
		}
		jobs = append(jobs, Job{
			Name:           fmt.Sprintf("parser-accepts %s N=3", g.Name),
			Target:         t,
			Run:            SymRun{Harness: "VerifC02Accept", Params: map[string]int{"N": 3}, LoopBound: 64, LoopBounds: map[string]int{"Parse": 28}, ForkFuncs: []string{"Parse", "VerifC02Accept"}},
			Bounds:         fmt.Sprintf("grammar %s: every sequence of 3 tokens numbered through the generated token.TokMap is accepted iff it is a sentence", g.Name),
			RequiredCovers: []string{"end"},
		})
	}
	c.BoundsText = append(c.BoundsText, "parser side of the shared numbering: for a grammar with terminals numbered after the empty keyword and an unreferenced token (G24), G02 and the hostile-spelling grammar, the generated action table read through token.TokMap.Type(name) simulates the reference LR(1) automaton (symbolic terminal), and token sequences numbered through TokMap are accepted iff sentences")
	c.BoundsText = append(c.BoundsText, "generated token package of corpus grammars (hostile spellings; combined, -no_lexer, lexer-only, with error symbol): structural facts evaluated by the engine, round trips decided for a symbolic number and a symbolic unknown name (<= 3 bytes)",
		"the 'lexer emits these numbers' half is enforced by C01 (its oracle speaks terminal NAMES and converts through the generated token.TokMap)")
	c.RunJobs(filterJobs(jobs), 4)
}

// withRefTables adds the reference LR(1) tables of g to the target.
func withRefTables(t *Target, g *SynGrammar) *RefLR {
	r := BuildRefLR(g)
	dir := filepath.Join(t.ModDir, "_verifdata")
	os.MkdirAll(dir, 0o755)
	f := filepath.Join(dir, "ref_"+g.Name+".go")
	os.WriteFile(f, []byte(r.HarnessTables()), 0o644)
	t.Harness = append(t.Harness, f)
	return r
}

func checkC05(c *Ctx) {
	maxN := 5
	if !c.Quick() {
		maxN = 8
	}
	var jobs []Job
	ccorpus := ConflictCorpus
	if os.Getenv("GV_RANDOM_ONLY") != "" {
		ccorpus = nil
	}
	for _, g := range ccorpus {
		ga := g.WithRecordingActions()
		t, err := c.parserTarget(ga, true, append(parserHarness, "genparser/c05.go")...)
		if err != nil {
			c.Inconclusive = append(c.Inconclusive, err.Error())
			continue
		}
		r := withRefTables(t, g)
		if !r.Conflict {
			c.Inconclusive = append(c.Inconclusive, "corpus grammar "+g.Name+" has no conflict in the reference automaton")
		}
		if sj, err := c.simJob(t, g, r, "tables "+g.Name, SymRun{}); err == nil {
			jobs = append(jobs, sj)
		} else {
			c.Inconclusive = append(c.Inconclusive, fmt.Sprintf("%s: table simulation: %v", g.Name, err))
		}
		for n := 0; n <= maxN; n++ {
			jobs = append(jobs, Job{
				Name:           fmt.Sprintf("lockstep %s N=%d", g.Name, n),
				Target:         t,
				Run:            SymRun{Harness: "VerifC05Lockstep", Params: map[string]int{"N": n, "STEPS": 8*(n+1) + 8}, LoopBound: 8*(n+1) + 16, ForkFuncs: []string{"Parse", "VerifC05Lockstep", "verifRefRun"}},
				Bounds:         fmt.Sprintf("grammar %s generated with -a, every sequence of %d terminal tokens", g.Name, n),
				RequiredCovers: []string{"end"},
			})
		}
	}
	nRand, randN := 2, 4
	if !c.Quick() {
		nRand, randN = 12, 5 // 6 tokens on the varied grammars took more than 35 minutes
	}
	for _, g := range append(RandomGrammars(int64(c.Seed)+1000, nRand/2, true), VariedGrammars(int64(c.Seed)+1000, nRand-nRand/2, true)...) {
		ga := g.WithRecordingActions()
		t, err := c.parserTarget(ga, true, append(parserHarness, "genparser/c05.go")...)
		if err != nil {
			c.Notes = append(c.Notes, fmt.Sprintf("random grammar %s skipped (gocc refuses it, e.g. an accept/reduce conflict): %v", g.Name, firstLine(err.Error())))
			continue
		}
		rr := withRefTables(t, g)
		if sj, err := c.simJob(t, g, rr, "random-tables "+g.Name, SymRun{}); err == nil {
			jobs = append(jobs, sj)
		} else {
			c.Inconclusive = append(c.Inconclusive, fmt.Sprintf("%s: table simulation: %v", g.Name, err))
		}
		for n := 0; n <= randN; n++ {
			jobs = append(jobs, Job{
				Name:           fmt.Sprintf("random-lockstep %s N=%d", g.Name, n),
				Target:         t,
				Run:            SymRun{Harness: "VerifC05Lockstep", Params: map[string]int{"N": n, "STEPS": 10*(n+1) + 10}, LoopBound: 10*(n+1) + 20, ForkFuncs: []string{"Parse", "VerifC05Lockstep", "verifRefRun"}},
				Bounds:         fmt.Sprintf("random conflicting grammar %s (seed %d) through gocc -a: every sequence of %d tokens; grammar: %s", g.Name, c.Seed, n, oneLine(g.BNF(false))),
				RequiredCovers: []string{"end"},
			})
		}
	}
	c.BoundsText = append(c.BoundsText, fmt.Sprintf("plus %d random conflicting grammars drawn with VERIF_SEED=%d (sampling on the grammar axis), lock-step up to %d tokens", nRand, c.Seed, randN))
	c.kernelC05(&jobs)
	c.BoundsText = append(c.BoundsText, fmt.Sprintf("pipeline: conflicting corpus grammars through gocc -a; all token sequences of length 0..%d; lock-step with /verif's own canonical LR(1) automaton resolved by the stated rule: same verdict and same reduction sequence", maxN))
	c.RunJobs(filterJobs(jobs), 4)
}

func (c *Ctx) kernelC05(jobs *[]Job) { *jobs = append(*jobs, actionKernelJobs(c)...) }

func checkC07(c *Ctx) {
	maxN := 3
	if !c.Quick() {
		maxN = 5
	}
	var jobs []Job
	for _, g := range RecoveryCorpus {
		ga := g.WithRecordingActions()
		t, err := c.parserTarget(ga, true, append(parserHarness, "genparser/c07.go")...)
		if err != nil {
			c.Inconclusive = append(c.Inconclusive, err.Error())
			continue
		}
		{
			ts := *t
			ts.Harness = append([]string{}, t.Harness...)
			r := withRefTables(&ts, g)
			if sj, err := c.simJob(&ts, g, r, "tables "+g.Name, SymRun{}); err == nil {
				jobs = append(jobs, sj)
			} else {
				c.Inconclusive = append(c.Inconclusive, fmt.Sprintf("%s: table simulation: %v", g.Name, err))
			}
		}
		for n := 0; n <= maxN; n++ {
			jobs = append(jobs, Job{
				Name:           fmt.Sprintf("recover %s N=%d", g.Name, n),
				Target:         t,
				Run:            SymRun{Harness: "VerifC07Recover", Params: map[string]int{"N": n, "STEPS": 8*(n+1) + 8}, LoopBound: 8*(n+1) + 16, ForkFuncs: []string{"Parse", "VerifC07Recover", "verifRefParse", "Error"}},
				Bounds:         fmt.Sprintf("grammar %s (error alternatives), every sequence of %d terminal tokens; every loop of Parse/Error/popNonRecoveryStates unwound %d times with unwinding assertion (= Parse returns)", g.Name, n, 8*(n+1)+16),
				RequiredCovers: []string{"end"},
			})
		}
	}
	c.BoundsText = append(c.BoundsText, fmt.Sprintf("corpus grammars with error alternatives; all token sequences of length 0..%d; no panic record of Parse/Error/popNonRecoveryStates/firstRecoveryState is reachable; lock-step comparison with a reference LR driver (same generated tables, own transcription of the recovery rule of the property); inertness on sentences of the error-free twin (CYK)", maxN))
	c.RunJobs(filterJobs(jobs), 4)
}

// GWide: an alternative of twelve symbols (ten of them empty nonterminals, so that a sentence
// has two tokens): two-digit $-placeholders.
var GWide = &SynGrammar{Name: "G25", Why: "an alternative with twelve body symbols: placeholders $10 and $11", Lex: stdLex,
	Prods: []Prod{
		P("S", Lit("a"), NT("E"), NT("E"), NT("E"), NT("E"), NT("E"), NT("E"), NT("E"), NT("E"), NT("E"), NT("F"), Lit("b")),
		P("E"), P("F"), P("F", Lit("c")),
	}}

var parserHarness = []string{"genparser/common.go", "genparser/c02.go", "genparser/c03.go"}

func parseBound(n int) int { return 6*(n+1) + 4 }

func checkC03(c *Ctx) {
	maxN := 4
	if !c.Quick() {
		maxN = 6
	}
	var jobs []Job
	for _, g := range append(append([]*SynGrammar{}, SynCorpus...), GWide) {
		if g == GWide && os.Getenv("GV_RANDOM_ONLY") != "" {
			continue
		}
		ga := g.WithRecordingActions()
		t, err := c.parserTarget(ga, true, parserHarness...)
		if err != nil {
			c.Inconclusive = append(c.Inconclusive, err.Error())
			continue
		}
		for n := 0; n <= maxN; n++ {
			jobs = append(jobs, Job{
				Name:           fmt.Sprintf("tree %s N=%d", g.Name, n),
				Target:         t,
				Run:            SymRun{Harness: "VerifC03Tree", Params: map[string]int{"N": n}, LoopBound: 64, LoopBounds: map[string]int{"Parse": parseBound(n)}, ForkFuncs: []string{"Parse", "VerifC03Tree"}},
				Bounds:         fmt.Sprintf("grammar %s with a recording action on every alternative; every sequence of %d terminal tokens; every choice of a failing action occurrence", g.Name, n),
				RequiredCovers: []string{"end"},
			})
		}
		// default actions: the copy without actions, one job per production
		t0, err := c.parserTarget(g, false, parserHarness...)
		if err != nil {
			c.Inconclusive = append(c.Inconclusive, err.Error())
			continue
		}
		for k := range g.Prods {
			jobs = append(jobs, Job{
				Name:   fmt.Sprintf("default-action %s prod=%d", g.Name, k+1),
				Target: t0,
				// production 0 of the generated table is the augmented S' : S
				Run:    SymRun{Harness: "VerifC03Default", Params: map[string]int{"PROD": k + 1}, LoopBound: 16},
				Bounds: fmt.Sprintf("generated reduce function of production %d of %s (no action written), arbitrary attribute objects", k+1, g.Name),
			})
		}
	}
	for _, g := range RecoveryCorpus {
		t, err := c.parserTarget(g.WithRecordingActions(), true, parserHarness...)
		if err != nil {
			c.Inconclusive = append(c.Inconclusive, err.Error())
			continue
		}
		for n := 1; n <= maxN; n++ {
			jobs = append(jobs, Job{
				Name:           fmt.Sprintf("error-clause %s N=%d", g.Name, n),
				Target:         t,
				Run:            SymRun{Harness: "VerifC03ErrClause", Params: map[string]int{"N": n}, LoopBound: 8*(n+1) + 16, ForkFuncs: []string{"Parse", "VerifC03ErrClause", "Error"}},
				Bounds:         fmt.Sprintf("grammar %s (with error alternatives), every sequence of %d tokens, every choice of the failing action occurrence", g.Name, n),
				RequiredCovers: []string{"end"},
			})
		}
	}
	c.BoundsText = append(c.BoundsText, fmt.Sprintf("corpus grammars with recording actions, real $-substitution and productions table; all token sequences of length 0..%d; the trace of action calls must be the post-order evaluation of a derivation tree of the input (which is THE parse tree for a conflict-free grammar) with the scanner's token objects at the leaves; default actions checked on the generated reduce functions of the action-free copy", maxN))
	c.RunJobs(filterJobs(jobs), 4)
}

// reduced grammars only (every nonterminal productive): the property's precondition
var c06Grammars = map[string]bool{"G01": true, "G02": true, "G03": true, "G04": true, "G08": true, "G09": true, "G21": true, "G22": true}

func checkC06(c *Ctx) {
	maxN := 3
	if !c.Quick() {
		maxN = 4 // N=5 exceeded the memory of this machine (prefix oracle for every extension)
	}
	var jobs []Job
	for _, g := range SynCorpus {
		if !c06Grammars[g.Name] {
			continue
		}
		ga := g.WithRecordingActions()
		t, err := c.parserTarget(ga, true, parserHarness...)
		if err != nil {
			c.Inconclusive = append(c.Inconclusive, err.Error())
			continue
		}
		gmax := maxN
		if gmax > 3 && (g.Name == "G02" || g.Name == "G22") {
			gmax = 3 // N=4 on these two (nullable lists, nested look-ahead contexts) did not finish in 20 minutes
		}
		for n := 0; n <= gmax; n++ {
			jobs = append(jobs, Job{
				Name:           fmt.Sprintf("error-report %s N=%d", g.Name, n),
				Target:         t,
				Run:            SymRun{Harness: "VerifC06Error", Params: map[string]int{"N": n}, LoopBound: 64, LoopBounds: map[string]int{"Parse": parseBound(n)}, ForkFuncs: []string{"Parse", "VerifC06Error"}},
				Bounds:         fmt.Sprintf("grammar %s, every sequence of %d terminal tokens", g.Name, n),
				RequiredCovers: []string{},
			})
		}
	}
	c.BoundsText = append(c.BoundsText, fmt.Sprintf("reduced, error-free corpus grammars; all token sequences of length 0..%d; oracle: viable-prefix recogniser (CYK variant) over /verif's own grammar representation, evaluated for every prefix and every one-terminal extension (thorough tier: G02 and G22 up to length 3 only)", maxN))
	c.RunJobs(filterJobs(jobs), 4)
}

// parserTarget generates the grammar and returns the parser package target with the harness
// files plus the generated grammar-data file.
func (c *Ctx) parserTarget(g *SynGrammar, withActions bool, harness ...string) (*Target, error) {
	flags := append([]string{}, g.Flags...)
	res, err := c.Generate("syn_"+g.Name, g.BNF(withActions), flags...)
	if err != nil {
		return nil, err
	}
	if res.Exit != 0 {
		return nil, fmt.Errorf("gocc exit %d on corpus grammar %s:\n%s", res.Exit, g.Name, res.Output)
	}
	t := res.Target("parser", harness...)
	os.MkdirAll(filepath.Join(res.Dir, "_verifdata"), 0o755)
	data := filepath.Join(res.Dir, "_verifdata", "data_"+g.Name+".go")
	os.WriteFile(data, []byte(g.HarnessData(false)), 0o644)
	t.Harness = append(t.Harness, data)
	return t, nil
}

func checkC02(c *Ctx) {
	maxN := 4
	if !c.Quick() {
		maxN = 5 // N=6 needs > 12 GiB for the right-recursive nullable list G02
	}
	var jobs []Job
	corpus := SynCorpus
	if os.Getenv("GV_RANDOM_ONLY") != "" {
		corpus = nil
	}
	for _, g := range corpus {
		t, err := c.parserTarget(g, false, parserHarness...)
		if err != nil {
			c.Inconclusive = append(c.Inconclusive, err.Error())
			continue
		}
		{
			ts := *t
			ts.Harness = append([]string{}, t.Harness...)
			r := withRefTables(&ts, g)
			if sj, err := c.simJob(&ts, g, r, "tables "+g.Name, SymRun{}); err == nil {
				jobs = append(jobs, sj)
			} else {
				c.Inconclusive = append(c.Inconclusive, fmt.Sprintf("%s: table simulation: %v", g.Name, err))
			}
		}
		for n := 0; n <= maxN; n++ {
			jobs = append(jobs, Job{
				Name:           fmt.Sprintf("accept %s N=%d", g.Name, n),
				Target:         t,
				Run:            SymRun{Harness: "VerifC02Accept", Params: map[string]int{"N": n}, LoopBound: 64, LoopBounds: map[string]int{"Parse": 6*(n+1) + 4}, ForkFuncs: []string{"Parse", "VerifC02Accept"}},
				Bounds:         fmt.Sprintf("grammar %s, every sequence of exactly %d terminal tokens; Parse loop unwound %d times with unwinding assertion (= termination within that many steps)", g.Name, n, 6*(n+1)+4),
				RequiredCovers: []string{"end"},
			})
		}
	}
	nRand, randN := 2, 3
	if !c.Quick() {
		nRand, randN = 12, 5
	}
	for _, g := range append(RandomGrammars(int64(c.Seed), nRand/2, false), VariedGrammars(int64(c.Seed), nRand-nRand/2, false)...) {
		ga := g.WithRecordingActions()
		t, err := c.parserTarget(ga, true, append(parserHarness, "genparser/c05.go")...)
		if err != nil {
			// gocc disagrees with the reference construction about this grammar: that is C04's subject
			c.Notes = append(c.Notes, fmt.Sprintf("random grammar %s skipped: %v", g.Name, err))
			continue
		}
		rr := withRefTables(t, g)
		if sj, err := c.simJob(t, g, rr, "random-tables "+g.Name, SymRun{}); err == nil {
			jobs = append(jobs, sj)
		} else {
			c.Inconclusive = append(c.Inconclusive, fmt.Sprintf("%s: table simulation: %v", g.Name, err))
		}
		for n := 0; n <= randN; n++ {
			jobs = append(jobs, Job{
				Name:           fmt.Sprintf("random-lockstep %s N=%d", g.Name, n),
				Target:         t,
				Run:            SymRun{Harness: "VerifC05Lockstep", Params: map[string]int{"N": n, "STEPS": 10*(n+1) + 10}, LoopBound: 10*(n+1) + 20, ForkFuncs: []string{"Parse", "VerifC05Lockstep", "verifRefRun"}},
				Bounds:         fmt.Sprintf("random conflict-free grammar %s (seed %d): every sequence of %d tokens, lock-step with the reference LR(1) machine; grammar: %s", g.Name, c.Seed, n, oneLine(g.BNF(false))),
				RequiredCovers: []string{"end"},
			})
		}
		if n := 3; true {
			jobs = append(jobs, Job{
				Name:           fmt.Sprintf("random-accept %s N=%d", g.Name, n),
				Target:         t,
				Run:            SymRun{Harness: "VerifC02Accept", Params: map[string]int{"N": n}, LoopBound: 64, LoopBounds: map[string]int{"Parse": 10*(n+1) + 20}, ForkFuncs: []string{"Parse", "VerifC02Accept"}},
				Bounds:         fmt.Sprintf("random conflict-free grammar %s: every sequence of %d tokens against CYK", g.Name, n),
				RequiredCovers: []string{"end"},
			})
		}
	}
	c.BoundsText = append(c.BoundsText, fmt.Sprintf("plus %d random conflict-free grammars drawn with VERIF_SEED=%d (sampling on the grammar axis, symbolic on the token axis): lock-step with the reference LR(1) machine up to %d tokens and CYK at 3 tokens", nRand, c.Seed, randN))
	c.BoundsText = append(c.BoundsText, fmt.Sprintf("corpus grammars %d (conflict-free), real generated tables and Parse; token sequences of length 0..%d over the grammar's terminals, symbolic; oracle: CYK over /verif's own representation of the grammar", len(SynCorpus), maxN),
		"outside the claim: grammars outside the corpus, longer inputs, scanners returning token types outside the terminal range")
	c.RunJobs(filterJobs(jobs), 4)
}

func filterJobs(jobs []Job) []Job {
	f := os.Getenv("GV_ONLY")
	if f == "" {
		return jobs
	}
	var js []Job
	for _, j := range jobs {
		for _, alt := range strings.Split(f, "|") {
			if strings.HasPrefix(j.Name, alt) {
				js = append(js, j)
				break
			}
		}
	}
	return js
}

func oneLine(s string) string {
	return strings.Join(strings.Fields(s), " ")
}

func firstLine(s string) string {
	if i := strings.IndexByte(s, '\n'); i >= 0 {
		return s[:i]
	}
	return s
}
