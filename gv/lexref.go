package gv

import (
	"fmt"
	"strings"
)

// Structured lexical grammars and /verif's own Thompson-style NFA construction: the oracle's
// view of a lexical grammar never passes through gocc.

type LKind int

const (
	LChar  LKind = iota // single rune Lo
	LRange              // Lo-Hi
	LDot                // .
	LRef                // regular definition / token reference (macro expansion)
	LOpt                // [ Sub ]
	LRep                // { Sub }
	LGroup              // ( Sub )
)

type LTerm struct {
	Kind   LKind
	Lo, Hi rune
	Ref    string
	Sub    *LPat
}

// LPat: alternatives of sequences.
type LPat struct{ Alts [][]LTerm }

type LProd struct {
	Name string // "id", "!ws", "_digit"
	Pat  LPat
}

type LexSpec struct {
	Name  string
	Why   string
	Prods []LProd
	// SynLits: string literals of a (trivial) syntax part; they win over every named pattern
	SynLits []string
	// Unreferenced: tokens that the syntax part does not mention
	Unreferenced []string
}

func C(r rune) LTerm       { return LTerm{Kind: LChar, Lo: r, Hi: r} }
func R(lo, hi rune) LTerm  { return LTerm{Kind: LRange, Lo: lo, Hi: hi} }
func Dot() LTerm           { return LTerm{Kind: LDot} }
func Ref(n string) LTerm   { return LTerm{Kind: LRef, Ref: n} }
func Opt(p LPat) LTerm     { return LTerm{Kind: LOpt, Sub: &p} }
func Rep(p LPat) LTerm     { return LTerm{Kind: LRep, Sub: &p} }
func Grp(p LPat) LTerm     { return LTerm{Kind: LGroup, Sub: &p} }
func Seq(ts ...LTerm) LPat { return LPat{Alts: [][]LTerm{ts}} }
func Alt(ps ...LPat) LPat {
	var out LPat
	for _, p := range ps {
		out.Alts = append(out.Alts, p.Alts...)
	}
	return out
}
func Str(s string) LPat {
	var ts []LTerm
	for _, r := range s {
		ts = append(ts, C(r))
	}
	return Seq(ts...)
}

func runeLit(r rune) string {
	switch {
	case r == '\'' || r == '\\':
		return `'\` + string(r) + `'`
	case r >= 0x20 && r < 0x7f:
		return "'" + string(r) + "'"
	case r == '\n':
		return `'\n'`
	case r == '\t':
		return `'\t'`
	case r == '\r':
		return `'\r'`
	case r < 0x100:
		return fmt.Sprintf(`'\x%02x'`, r)
	case r < 0x10000:
		return fmt.Sprintf(`'\u%04x'`, r)
	}
	return fmt.Sprintf(`'\U%08x'`, r)
}

func (p LPat) text() string {
	var alts []string
	for _, a := range p.Alts {
		var ts []string
		for _, t := range a {
			switch t.Kind {
			case LChar:
				ts = append(ts, runeLit(t.Lo))
			case LRange:
				ts = append(ts, runeLit(t.Lo)+"-"+runeLit(t.Hi))
			case LDot:
				ts = append(ts, ".")
			case LRef:
				ts = append(ts, t.Ref)
			case LOpt:
				ts = append(ts, "[ "+t.Sub.text()+" ]")
			case LRep:
				ts = append(ts, "{ "+t.Sub.text()+" }")
			case LGroup:
				ts = append(ts, "( "+t.Sub.text()+" )")
			}
		}
		alts = append(alts, strings.Join(ts, " "))
	}
	return strings.Join(alts, " | ")
}

// BNF prints the lexical part (and a syntax part that mentions every token and literal once,
// so that gocc keeps them).
func (l *LexSpec) BNF() string {
	var b strings.Builder
	for _, p := range l.Prods {
		fmt.Fprintf(&b, "%s : %s ;\n", p.Name, p.Pat.text())
	}
	if len(l.SynLits) > 0 {
		b.WriteString("\nS\n")
		first := true
		add := func(s string) {
			if first {
				b.WriteString("\t: " + s + "\n")
				first = false
			} else {
				b.WriteString("\t| " + s + "\n")
			}
		}
		for _, s := range l.SynLits {
			add(`"` + s + `"`)
		}
		for _, p := range l.Prods {
			unref := false
			for _, u := range l.Unreferenced {
				if u == p.Name {
					unref = true
				}
			}
			if !strings.HasPrefix(p.Name, "!") && !strings.HasPrefix(p.Name, "_") && !unref {
				add(p.Name)
			}
		}
		b.WriteString("\t;\n")
	}
	return b.String()
}

// ---- NFA ----------------------------------------------------------------------------------

type nfaTr struct {
	from   int
	lo, hi rune
	to     int
}

type NFA struct {
	n      int
	eps    [][]int
	chr    []nfaTr
	dot    [][2]int // from, to
	accept map[int]int
	// patterns in priority order of the PROPERTY: syntax literals first, then declaration order
	PatNames   []string
	PatIgnored []bool
	starts     []int
}

func (n *NFA) newState() int {
	n.eps = append(n.eps, nil)
	n.n++
	return n.n - 1
}

func (l *LexSpec) find(name string) *LProd {
	for i := range l.Prods {
		if l.Prods[i].Name == name {
			return &l.Prods[i]
		}
	}
	return nil
}

// build adds the fragment for p between fresh entry/exit states.
func (n *NFA) build(l *LexSpec, p LPat, depth int) (in, out int) {
	if depth > 8 {
		panic("lexref: recursive regular definition")
	}
	in, out = n.newState(), n.newState()
	for _, alt := range p.Alts {
		cur := in
		for _, t := range alt {
			switch t.Kind {
			case LChar, LRange:
				nx := n.newState()
				n.chr = append(n.chr, nfaTr{cur, t.Lo, t.Hi, nx})
				cur = nx
			case LDot:
				nx := n.newState()
				n.dot = append(n.dot, [2]int{cur, nx})
				cur = nx
			case LRef:
				pr := l.find(t.Ref)
				if pr == nil {
					panic("lexref: unknown reference " + t.Ref)
				}
				si, so := n.build(l, pr.Pat, depth+1)
				n.eps[cur] = append(n.eps[cur], si)
				cur = so
			case LGroup:
				si, so := n.build(l, *t.Sub, depth)
				n.eps[cur] = append(n.eps[cur], si)
				cur = so
			case LOpt:
				si, so := n.build(l, *t.Sub, depth)
				nx := n.newState()
				n.eps[cur] = append(n.eps[cur], si, nx)
				n.eps[so] = append(n.eps[so], nx)
				cur = nx
			case LRep:
				si, so := n.build(l, *t.Sub, depth)
				nx := n.newState()
				n.eps[cur] = append(n.eps[cur], si, nx)
				n.eps[so] = append(n.eps[so], si, nx)
				cur = nx
			}
		}
		n.eps[cur] = append(n.eps[cur], out)
	}
	return
}

// BuildNFA constructs the reference automaton of the lexical grammar.
func (l *LexSpec) BuildNFA() *NFA {
	n := &NFA{accept: map[int]int{}}
	addPat := func(name string, ignored bool, p LPat) {
		in, out := n.build(l, p, 0)
		n.starts = append(n.starts, in)
		n.accept[out] = len(n.PatNames)
		n.PatNames = append(n.PatNames, name)
		n.PatIgnored = append(n.PatIgnored, ignored)
	}
	for _, s := range l.SynLits {
		addPat(s, false, Str(s))
	}
	for _, p := range l.Prods {
		switch {
		case strings.HasPrefix(p.Name, "_"):
		case strings.HasPrefix(p.Name, "!"):
			addPat(p.Name, true, p.Pat)
		default:
			addPat(p.Name, false, p.Pat)
		}
	}
	return n
}

func (n *NFA) eclose(s int) uint64 {
	var m uint64
	st := []int{s}
	for len(st) > 0 {
		x := st[len(st)-1]
		st = st[:len(st)-1]
		if m&(1<<uint(x)) != 0 {
			continue
		}
		m |= 1 << uint(x)
		st = append(st, n.eps[x]...)
	}
	return m
}

// HarnessData emits the NFA as Go data for the lexer harness.
func (n *NFA) HarnessData(name string) (string, error) {
	if n.n > 64 {
		return "", fmt.Errorf("reference NFA of %s has %d states (> 64)", name, n.n)
	}
	var b strings.Builder
	b.WriteString("//go:build verif\n\npackage lexer\n\n")
	fmt.Fprintf(&b, "// reference NFA of lexical grammar %s: %d states\n", name, n.n)
	var start uint64
	for _, s := range n.starts {
		start |= n.eclose(s)
	}
	fmt.Fprintf(&b, "const verifNFAStart uint64 = %#x\n", start)
	b.WriteString("var verifNFAChr = []verifNFATr{\n")
	for _, t := range n.chr {
		fmt.Fprintf(&b, "\t{from: %d, lo: %d, hi: %d, to: %#x},\n", t.from, t.lo, t.hi, n.eclose(t.to))
	}
	b.WriteString("}\nvar verifNFADot = []verifNFATr{\n")
	for _, t := range n.dot {
		fmt.Fprintf(&b, "\t{from: %d, to: %#x},\n", t[0], n.eclose(t[1]))
	}
	b.WriteString("}\n")
	b.WriteString("// accepting state bit per pattern, in the priority order of the property\n")
	b.WriteString("var verifNFAAccept = []uint64{")
	acc := make([]uint64, len(n.PatNames))
	for s, p := range n.accept {
		acc[p] |= 1 << uint(s)
	}
	for _, a := range acc {
		fmt.Fprintf(&b, "%#x, ", a)
	}
	b.WriteString("}\nvar verifPatNames = []string{")
	for _, s := range n.PatNames {
		fmt.Fprintf(&b, "%q, ", s)
	}
	b.WriteString("}\nvar verifPatIgnored = []bool{")
	for _, s := range n.PatIgnored {
		fmt.Fprintf(&b, "%v, ", s)
	}
	b.WriteString("}\n")
	return b.String(), nil
}

// LexSpecs: the lexical corpus of C01.
var LexSpecs = []*LexSpec{
	{Name: "L01", Why: "identifier vs keyword from the syntax part vs a named keyword token: priority rules",
		Prods: []LProd{
			{"!ws", Alt(Seq(C(' ')), Seq(C('\n')))},
			{"kw", Str("if")},
			{"id", Seq(R('a', 'z'), Rep(Seq(R('a', 'z'))))},
		}, SynLits: []string{"in", "if"}},
	{Name: "L02", Why: "overlapping, nested and abutting ranges and single runes: class splitting",
		Prods: []LProd{
			{"x", Seq(R('a', 'm'), R('h', 'z'))},
			{"y", Seq(R('h', 'k'), C('j'))},
			{"z", Alt(Seq(C('m')), Seq(C('n'), C('n')), Seq(R('0', '9'), R('5', '9')))},
		}, SynLits: []string{"q"}},
	{Name: "L03", Why: "'.' next to specific alternatives; escape-in-string pattern",
		Prods: []LProd{
			{"str", Seq(C('"'), Rep(Alt(Seq(C('\\'), Dot()), Seq(Dot()))), C('"'))},
			{"any2", Seq(C('a'), Dot())},
		}, SynLits: []string{"a"}},
	{Name: "L04", Why: "white space, line comments (ignored) next to a '/' token; ignored then token adjacency",
		Prods: []LProd{
			{"!ws", Alt(Seq(C(' ')), Seq(C('\t')), Seq(C('\n')), Seq(C('\r')))},
			{"!comment", Seq(C('/'), C('/'), Rep(Seq(Dot())), C('\n'))},
			{"div", Seq(C('/'))},
			{"id", Seq(R('a', 'z'), Rep(Seq(R('a', 'z'))))},
		}, SynLits: []string{"/="}},
	{Name: "L05", Why: "non-ASCII: 2/3/4-byte literals and ranges at the encoding boundaries, NUL, a range ending at U+10FFFF",
		Prods: []LProd{
			{"u2", Alt(Seq(C(0xe9)), Seq(R(0x80, 0x7ff), C('2')))},
			{"u3", Alt(Seq(C(0x20ac)), Seq(R(0x800, 0xffff), C('3')))},
			{"u4", Alt(Seq(C(0x1f600)), Seq(R(0x10000, 0x10ffff), C('4')))},
			{"nul", Seq(C(0))},
		}, SynLits: []string{"z", "λx", "→"}},
	{Name: "L06", Why: "nested [] {} (): number syntax with shared regular definitions",
		Prods: []LProd{
			{"_d", Seq(R('0', '9'))},
			{"_ds", Seq(Ref("_d"), Rep(Seq(Ref("_d"))))},
			{"num", Seq(Ref("_ds"), Opt(Seq(C('.'), Ref("_ds"))), Opt(Seq(Grp(Alt(Seq(C('e')), Seq(C('E')))), Opt(Alt(Seq(C('+')), Seq(C('-')))), Ref("_ds"))))},
		}, SynLits: []string{"."}},
	{Name: "L07", Why: "accept-then-ignore adjacency and a longer token through both",
		Prods: []LProd{
			{"x", Seq(C('a'))},
			{"!y", Seq(C('a'), C('b'))},
			{"z", Seq(C('a'), C('b'), C('c'), C('d'))},
		}, SynLits: []string{"q"}},
	{Name: "L08", Why: "nested and looped regular definitions used twice in one pattern",
		Prods: []LProd{
			{"_h", Alt(Seq(R('0', '9')), Seq(R('a', 'f')))},
			{"_hh", Seq(Ref("_h"), Ref("_h"))},
			{"hex", Seq(C('#'), Ref("_hh"), Rep(Seq(Ref("_hh"))))},
			{"w", Seq(Ref("_h"), C('w'))},
		}, SynLits: []string{"q"}},
	{Name: "L09", Why: "a regular definition with alternatives of different lengths used twice in a row (D7)",
		Prods: []LProd{
			{"_d", Alt(Seq(C('a'), C('b')), Seq(C('a')))},
			{"x", Seq(Ref("_d"), Ref("_d"))},
		}, SynLits: []string{"q"}},
	{Name: "L12", Why: "overlapping named tokens where the earlier-declared one reaches its accepting item through a regular definition and the later one is written directly",
		Prods: []LProd{
			{"_hex", Alt(Seq(R('0', '9')), Seq(R('a', 'f')))},
			{"hexnum", Seq(Ref("_hex"), Rep(Seq(Ref("_hex"))))},
			{"decnum", Seq(R('0', '9'), Rep(Seq(R('0', '9'))))},
			{"word", Seq(R('a', 'z'), Rep(Seq(R('a', 'z'))))},
		}, SynLits: []string{"q"}},
	{Name: "L13", Why: "tokens that the syntax part never mentions (they must still be numbered and recognised)",
		Prods: []LProd{
			{"!ws", Seq(C(' '))},
			{"id", Seq(R('a', 'z'), Rep(Seq(R('a', 'z'))))},
			{"num", Seq(R('0', '9'), Rep(Seq(R('0', '9'))))},
			{"op", Alt(Seq(C('+')), Seq(C('-'), C('>')))},
		}, SynLits: []string{"let"}, Unreferenced: []string{"id", "op"}},
	{Name: "L14", Why: "a token with more than ten alternatives, some of several characters (item positions with two digits)",
		Prods: []LProd{
			{"op", Alt(Seq(C('+')), Seq(C('='), C('=')), Seq(C('-')), Seq(C('*')), Seq(C('/')), Seq(C('%')), Seq(C('<'), C('=')), Seq(C('>')), Seq(C('!'), C('=')), Seq(C('&')), Seq(C('|'), C('|')))},
		}, SynLits: []string{"q"}},
	{Name: "L15", Why: "a token with twelve alternatives whose second alternative has three characters",
		Prods: []LProd{
			{"kw", Alt(Seq(C('a')), Seq(C('x'), C('y'), C('z')), Seq(C('b')), Seq(C('c')), Seq(C('d')), Seq(C('e')), Seq(C('f')), Seq(C('g')), Seq(C('h')), Seq(C('i')), Seq(C('j')), Seq(C('k')))},
		}, SynLits: []string{"q"}},
	{Name: "L16", Why: "repetitions whose body can match the empty string (gocc did not terminate on these before fix 5f4d2df)",
		Prods: []LProd{
			{"t", Seq(C('x'), Rep(Seq(Rep(Seq(C('a'))))), C('y'))},
			{"u", Seq(Rep(Seq(Opt(Seq(C('b'))))), C('c'))},
			{"v", Seq(C('d'), Opt(Seq(Rep(Seq(Opt(Seq(C('e'))), Opt(Seq(C('f'))))))), C('g'))},
		}, SynLits: []string{"q"}},
	{Name: "L17", Why: "a character literal that is the upper (or lower) end of a range of a later token in the same state",
		Prods: []LProd{
			{"kw", Seq(C('f'), C('o'), C('o'))},
			{"hex", Seq(R('a', 'f'), Rep(Seq(R('a', 'f'))))},
			{"up", Seq(C('K'), C('!'))},
			{"mid", Seq(R('A', 'K'), C('?'))},
			{"lo", Seq(C('0'), C('x'))},
			{"dig", Seq(R('0', '9'), R('0', '9'))},
		}, SynLits: []string{"q"}},
	{Name: "L10", Why: "declaration order between equal patterns; token vs ignored token with the same text",
		Prods: []LProd{
			{"first", Seq(C('a'), C('b'))},
			{"second", Seq(C('a'), R('a', 'c'))},
			{"!ign", Seq(C('c'), C('c'))},
			{"shadowed", Seq(C('c'), C('c'))},
		}, SynLits: []string{"q"}},
	{Name: "L11", Why: "any : . alone (every rune, RuneError included)",
		Prods: []LProd{
			{"any", Seq(Dot())},
		}, SynLits: []string{"q"}},
}

// ---- host-side simulation of the reference NFA (used to search the DFA/NFA relation) -------

func (n *NFA) Start() uint64 {
	var start uint64
	for _, s := range n.starts {
		start |= n.eclose(s)
	}
	return start
}

// Step mirrors verifNFAStep of the harness: explicit transitions first, '.' only if none matches.
func (n *NFA) Step(live uint64, r rune) uint64 {
	var explicit, dots uint64
	for _, t := range n.chr {
		if live>>uint(t.from)&1 == 1 && t.lo <= r && r <= t.hi {
			explicit |= n.eclose(t.to)
		}
	}
	for _, t := range n.dot {
		if live>>uint(t[0])&1 == 1 {
			dots |= n.eclose(t[1])
		}
	}
	if explicit != 0 {
		return explicit
	}
	return dots
}

// Best: index of the best accepting pattern of the live set, or -1.
func (n *NFA) Best(live uint64) int {
	best := -1
	for s, p := range n.accept {
		if live>>uint(s)&1 == 1 && (best < 0 || p < best) {
			best = p
		}
	}
	return best
}

// RepRunes: one representative per elementary interval of the rune space induced by all
// transition boundaries.
func (n *NFA) RepRunes() []rune {
	set := map[rune]bool{0: true}
	for _, t := range n.chr {
		set[t.lo] = true
		if t.hi+1 <= 0x10FFFF {
			set[t.hi+1] = true
		}
	}
	var out []rune
	for r := range set {
		out = append(out, r)
	}
	sortRunes(out)
	return out
}

func sortRunes(a []rune) {
	for i := 1; i < len(a); i++ {
		for j := i; j > 0 && a[j] < a[j-1]; j-- {
			a[j], a[j-1] = a[j-1], a[j]
		}
	}
}
