package gv

import (
	"encoding/json"
	"fmt"
	"os"
	"path/filepath"
	"regexp"
	"strings"

	"verif/gosym/engine"
)

func init() {
	Register("C12", checkC12)
}

type tableDump struct {
	CanRecover []bool `json:"can_recover"`
	Actions    [][]struct {
		K int `json:"k"`
		V int `json:"v"`
	} `json:"actions"`
	Goto     [][]int        `json:"goto"`
	TokNames []string       `json:"tok_names"`
	NTType   map[string]int `json:"nt_type"`
}

// simJob adds the table-simulation job for a generated parser target (which must already carry
// the reference tables of g): dumps the generated tables natively, searches the candidate
// relation from (0,0) and lets the solver-checked harness verify it.
func (c *Ctx) simJob(t *Target, g *SynGrammar, r *RefLR, name string, run SymRun) (Job, error) {
	stub := filepath.Join(t.ModDir, "_verifdata", "simpairs_stub.go")
	os.WriteFile(stub, []byte("//go:build verif\n\npackage parser\n\nvar verifSimPairs = [][2]int{}\n"), 0o644)
	tmp := *t
	tmp.Harness = append(append([]string{}, t.Harness...), stub)
	hasDump := false
	for _, h := range tmp.Harness {
		if strings.HasSuffix(h, "genparser/dump.go") {
			hasDump = true
		}
	}
	if !hasDump {
		tmp.Harness = append(tmp.Harness, VerifRoot+"/harness/genparser/dump.go")
	}
	d, err := c.nativeTables(&tmp)
	if err != nil {
		return Job{}, err
	}
	tidx := map[string]int{}
	for i, n := range r.Terms {
		tidx[n] = i
	}
	seen := map[[2]int]bool{{0, 0}: true}
	work := [][2]int{{0, 0}}
	for i := 0; i < len(work); i++ {
		s, rs := work[i][0], work[i][1]
		if s >= len(d.Actions) || rs >= len(r.States) {
			continue
		}
		add := func(p [2]int) {
			if !seen[p] && len(seen) < 4000 {
				seen[p] = true
				work = append(work, p)
			}
		}
		for typ, a := range d.Actions[s] {
			if typ >= len(d.TokNames) {
				continue
			}
			col, ok := tidx[d.TokNames[typ]]
			if !ok {
				continue
			}
			if ra := r.Resolved[rs][col]; a.K == 2 && ra >= 2 {
				add([2]int{a.V, ra - 2})
			}
		}
		for k, n := range r.NTs {
			colg, ok := d.NTType[n]
			if !ok || colg >= len(d.Goto[s]) {
				continue
			}
			if tgt := d.Goto[s][colg]; tgt >= 0 {
				if rt, ok := r.Goto[rs][-(k + 1)]; ok {
					add([2]int{tgt, rt})
				}
			}
		}
	}
	var pb strings.Builder
	pb.WriteString("//go:build verif\n\npackage parser\n\n// candidate simulation relation (generated state, reference state)\nvar verifSimPairs = [][2]int{")
	for _, p := range work {
		fmt.Fprintf(&pb, "{%d, %d}, ", p[0], p[1])
	}
	pb.WriteString("}\n")
	f := filepath.Join(t.ModDir, "_verifdata", "simpairs.go")
	os.WriteFile(f, []byte(pb.String()), 0o644)
	st := *t
	st.Harness = append(append([]string{}, t.Harness...), f, VerifRoot+"/harness/genparser/tablesim.go")
	run.Harness = "VerifTableSim"
	run.LoopBound = 4000
	run.ForkFuncs = nil
	run.Params = nil
	return Job{
		Name:           name,
		Target:         &st,
		Run:            run,
		Bounds:         fmt.Sprintf("grammar %s: every pair (%d) of the simulation relation between the generated automaton and the reference LR(1) automaton, every terminal/end of input (symbolic), every nonterminal (symbolic): unbounded in the length of the input", g.Name, len(work)),
		RequiredCovers: []string{"end"},
	}, nil
}

var tablesRe = regexp.MustCompile(`(?m)^VERIF-TABLES: (.*)$`)

// nativeTables runs the generated package's own init natively and returns the tables it built.
func (c *Ctx) nativeTables(t *Target) (*tableDump, error) {
	bin, err := c.replayBin(t)
	if err != nil {
		return nil, err
	}
	nr, err := t.RunReplayBinary(bin, "VerifDumpTables", "/dev/null")
	if nr == nil {
		return nil, err
	}
	m := tablesRe.FindStringSubmatch(nr.Raw)
	if m == nil {
		return nil, fmt.Errorf("no table dump in native output:\n%s", nr.Raw)
	}
	var d tableDump
	if err := json.Unmarshal([]byte(m[1]), &d); err != nil {
		return nil, err
	}
	return &d, nil
}

// injectTables installs natively computed parser tables into the engine.
func injectTables(d *tableDump) func(e *engine.Engine) {
	return func(e *engine.Engine) {
		const pkg = "gen/parser"
		e.EnsureInit(pkg) // everything except the skipped init functions
		tAccept, tShift, tReduce := e.NamedType(pkg, "accept"), e.NamedType(pkg, "shift"), e.NamedType(pkg, "reduce")
		var rows []engine.Value
		for s := range d.Actions {
			var acts []engine.Value
			for _, a := range d.Actions[s] {
				switch a.K {
				case 1:
					acts = append(acts, e.IfaceOf(tAccept, e.BoolV(true)))
				case 2:
					acts = append(acts, e.IfaceOf(tShift, e.IntV(int64(a.V), 64)))
				case 3:
					acts = append(acts, e.IfaceOf(tReduce, e.IntV(int64(a.V), 64)))
				default:
					acts = append(acts, e.NilIface())
				}
			}
			rows = append(rows, engine.StructOf(e.BoolV(d.CanRecover[s]), engine.ArrayOf(acts)))
		}
		e.SetGlobal(pkg, "actionTab", engine.ArrayOf(rows))
		var grows []engine.Value
		for s := range d.Goto {
			var g []engine.Value
			for _, x := range d.Goto[s] {
				g = append(g, e.IntV(int64(x), 64))
			}
			grows = append(grows, engine.ArrayOf(g))
		}
		e.SetGlobal(pkg, "gotoTab", engine.ArrayOf(grows))
	}
}

func checkC12(c *Ctx) {
	// quick tier: short sequences (the table-simulation job of every variant is unbounded anyway)
	maxN := 3
	if !c.Quick() {
		maxN = 5
	}
	type variant struct {
		tag   string
		flags []string
		zip   bool
	}
	variants := []variant{
		{"zip", []string{"-zip"}, true},
		{"debug_parser", []string{"-debug_parser"}, false},
		{"v", []string{"-v"}, false},
		{"no_lexer", []string{"-no_lexer"}, false},
		{"all", []string{"-zip", "-debug_parser", "-debug_lexer", "-v"}, true},
	}
	grammars := []*SynGrammar{SynCorpus[0], SynCorpus[2], ConflictCorpus[0]}
	if !c.Quick() {
		grammars = append(grammars, SynCorpus[3], ConflictCorpus[1])
	}
	var jobs []Job
	for _, g0 := range grammars {
		for _, v := range variants {
			g := *g0.WithRecordingActions()
			g.Name = g0.Name + "_" + v.tag
			g.Flags = append(append([]string{}, g0.Flags...), v.flags...)
			hs := append(append([]string{}, parserHarness...), "genparser/c05.go")
			if v.zip {
				hs = append(hs, "genparser/dump.go")
			}
			t, err := c.parserTarget(&g, true, hs...)
			if err != nil {
				c.Inconclusive = append(c.Inconclusive, err.Error())
				continue
			}
			withRefTables(t, g0)
			run := SymRun{Harness: "VerifC05Lockstep", LoopBound: 64, ForkFuncs: []string{"Parse", "VerifC05Lockstep", "verifRefRun"}}
			if v.zip {
				d, err := c.nativeTables(t)
				if err != nil {
					c.Inconclusive = append(c.Inconclusive, fmt.Sprintf("%s: native table dump failed: %v", g.Name, err))
					continue
				}
				run.SkipInitFuncs = func(p string) bool { return p == "gen/parser" }
				run.Setup = injectTables(d)
			}
			if sj, err := c.simJob(t, g0, BuildRefLR(g0), fmt.Sprintf("parser-tables %s", g.Name), run); err == nil {
				jobs = append(jobs, sj)
			} else {
				c.Inconclusive = append(c.Inconclusive, fmt.Sprintf("%s: table simulation: %v", g.Name, err))
			}
			for n := 0; n <= maxN; n++ {
				r := run
				r.Params = map[string]int{"N": n, "STEPS": 8*(n+1) + 8}
				r.LoopBound = 8*(n+1) + 16
				jobs = append(jobs, Job{
					Name:           fmt.Sprintf("parser %s N=%d", g.Name, n),
					Target:         t,
					Run:            r,
					Bounds:         fmt.Sprintf("grammar %s generated with %v: every sequence of %d terminal tokens, lock-step with the reference LR(1) machine (verdict, reductions, offending token, expected tokens)", g0.Name, v.flags, n),
					RequiredCovers: []string{"end"},
				})
			}
		}
	}
	jobs = append(jobs, c.zipEqJobs()...)
	jobs = append(jobs, c.lexerFlagJobs()...)
	c.BoundsText = append(c.BoundsText, "-zip table equivalence (unbounded in input length): for corpus grammars incl. the recovery and conflict corpus and a grammar with the error symbol in the middle of an alternative, the tables decoded by the -zip build equal the plain build's tables entry by entry (symbolic state, terminal and nonterminal), incl. the recovery flag")
	c.BoundsText = append(c.BoundsText, fmt.Sprintf("parser: corpus grammars generated with -zip, -debug_parser, -v, -no_lexer and all together; token sequences of length 0..%d; each flagged build is compared with the same reference canonical LR(1) machine (built by /verif) as the flag-free build in C02/C05: same verdict, same reduction sequence, same offending token, same expected-token set; hence flagged and flag-free builds agree with each other", maxN),
		"-zip: the tables are produced by running the generated init natively (gzip and gob are not symbolically executable) and injected into the engine; the decode loop after gob.Decode is therefore exercised concretely, not symbolically",
		"debug flags: fmt.Printf and friends are stubs that evaluate their arguments (explicit String() calls are executed) and print nothing; output on stdout is outside the claim")
	c.RunJobs(filterJobs(jobs), 4)
}

func (c *Ctx) lexerFlagJobs() []Job {
	maxN := 2
	if !c.Quick() {
		maxN = 3
	}
	var jobs []Job
	saved := LexSpecs
	defer func() { LexSpecs = saved }()
	var subset []*LexSpec
	for _, l := range saved {
		if l.Name == "L01" || l.Name == "L04" || l.Name == "L07" || l.Name == "L13" || (!c.Quick() && (l.Name == "L03" || l.Name == "L05")) {
			subset = append(subset, l)
		}
	}
	LexSpecs = subset
	jobs = append(jobs, c.c01Jobs(maxN, "-debug_lexer")...)
	if c.Quick() {
		// -zip and -v should not touch the lexer package: two small grammars in the quick tier
		// (L13 has tokens the syntax part never mentions)
		var small []*LexSpec
		for _, l := range subset {
			if l.Name == "L07" || l.Name == "L13" {
				small = append(small, l)
			}
		}
		LexSpecs = small
		jobs = append(jobs, c.c01Jobs(2, "-zip", "-v")...)
	} else {
		jobs = append(jobs, c.c01Jobs(maxN, "-zip", "-v")...)
	}
	// positions/tiling of the debug build on abstract tables
	g, err := c.Generate("atlex_debug", atLexGrammar, "-debug_lexer")
	if err != nil || g.Exit != 0 {
		c.Inconclusive = append(c.Inconclusive, fmt.Sprintf("gocc -debug_lexer failed on the abstract-table grammar: %v", err))
		return jobs
	}
	t := g.Target("lexer", "genlexer/at.go")
	for n := 0; n <= maxN; n++ {
		jobs = append(jobs, Job{
			Name:   fmt.Sprintf("debug-lexer scan-step N=%d", n),
			Target: t,
			Run:    SymRun{Harness: "VerifC08Step", Params: map[string]int{"N": n}, LoopBound: 16, LoopBounds: map[string]int{"Scan": n + 3}},
			Bounds: fmt.Sprintf("Scan generated with -debug_lexer on abstract tables, every source of %d bytes: same position/tiling specification as the plain build (C08)", n),
		})
	}
	return jobs
}

// GMidError: the error symbol in the middle of an alternative (outside C07's domain, inside
// C12's: the flags must not change which states recover).
var GMidError = &SynGrammar{Name: "G23", Why: "error symbol in the middle of an alternative", Lex: stdLex + "id : 'a'-'z' ;\n",
	Prods: []Prod{
		P("Stmts", NT("Stmts"), NT("Stmt")), P("Stmts", NT("Stmt")),
		P("Stmt", Lit("let"), Tok("id"), Lit("="), Tok("id"), Lit(";")), P("Stmt", Lit("let"), Err(), Lit(";")),
	}}

// zipEqJobs: the tables of the -zip build (decoded natively) against the plain build's tables.
func (c *Ctx) zipEqJobs() []Job {
	var gs []*SynGrammar
	gs = append(gs, GMidError)
	gs = append(gs, RecoveryCorpus...)
	gs = append(gs, ConflictCorpus[0], ConflictCorpus[3])
	if c.Quick() {
		gs = append(gs, SynCorpus[0], SynCorpus[1])
	} else {
		gs = append(gs, SynCorpus...)
		gs = append(gs, ConflictCorpus[:5]...) // G26 (added later) is not in the thorough -zip set: that tier was not re-run with it
	}
	var jobs []Job
	seen := map[string]bool{}
	for _, g0 := range gs {
		if seen[g0.Name] {
			continue
		}
		seen[g0.Name] = true
		gz := *g0
		gz.Name = g0.Name + "_zipeq_zip"
		gz.Flags = append(append([]string{}, g0.Flags...), "-zip")
		tz, err := c.parserTarget(&gz, false, append(append([]string{}, parserHarness...), "genparser/dump.go")...)
		if err != nil {
			c.Inconclusive = append(c.Inconclusive, err.Error())
			continue
		}
		d, err := c.nativeTables(tz)
		if err != nil {
			c.Inconclusive = append(c.Inconclusive, fmt.Sprintf("%s: native table dump failed: %v", gz.Name, err))
			continue
		}
		gp := *g0
		gp.Name = g0.Name + "_zipeq_plain"
		tp, err := c.parserTarget(&gp, false, append(append([]string{}, parserHarness...), "genparser/zipeq.go")...)
		if err != nil {
			c.Inconclusive = append(c.Inconclusive, err.Error())
			continue
		}
		var b strings.Builder
		b.WriteString("//go:build verif\n\npackage parser\n\nvar verifZipCanRecover = []bool{")
		for _, r := range d.CanRecover {
			fmt.Fprintf(&b, "%v, ", r)
		}
		b.WriteString("}\nvar verifZipActions = [][][2]int{\n")
		for _, row := range d.Actions {
			b.WriteString("\t{")
			for _, a := range row {
				fmt.Fprintf(&b, "{%d, %d}, ", a.K, a.V)
			}
			b.WriteString("},\n")
		}
		b.WriteString("}\nvar verifZipGoto = [][]int{\n")
		for _, row := range d.Goto {
			b.WriteString("\t{")
			for _, x := range row {
				fmt.Fprintf(&b, "%d, ", x)
			}
			b.WriteString("},\n")
		}
		b.WriteString("}\n")
		f := filepath.Join(tp.ModDir, "_verifdata", "zipdata.go")
		os.WriteFile(f, []byte(b.String()), 0o644)
		tp.Harness = append(tp.Harness, f)
		jobs = append(jobs, Job{
			Name:           "zip-tables " + g0.Name,
			Target:         tp,
			Run:            SymRun{Harness: "VerifC12ZipEq", LoopBound: 4000},
			Bounds:         fmt.Sprintf("grammar %s (%s): every state, every terminal column and every nonterminal column (all symbolic) of the plain build's tables against the tables decoded by the -zip build's init", g0.Name, g0.Why),
			RequiredCovers: []string{"end"},
		})
	}
	return jobs
}
