#!/bin/sh
# usage: confirm_seed.sh <worktree> : re-verifies a seeded change: builds, test suite, demo fails with / passes without.
W=$1
export GOFLAGS=-mod=mod GOPROXY=off
cd $W || exit 2
git checkout -q -- . && git apply SEED/patch.diff || { echo "patch does not apply cleanly"; exit 1; }
mv SEED /tmp/seed_aside_$$
go build ./... || { echo "BUILD FAILS"; mv /tmp/seed_aside_$$ SEED; exit 1; }
OKS=$(go test -vet=off -count=1 ./... 2>&1 | grep -c "^ok")
mv /tmp/seed_aside_$$ SEED
echo "test packages ok: $OKS (baseline 14)"
DEMO=$(ls SEED/demo/run.sh 2>/dev/null)
if [ -z "$DEMO" ]; then echo "no run.sh: $(ls SEED/demo)"; exit 0; fi
sh SEED/demo/run.sh >/tmp/demo_with.txt 2>&1; W1=$?
git apply -R SEED/patch.diff
sh SEED/demo/run.sh >/tmp/demo_without.txt 2>&1; W0=$?
git apply SEED/patch.diff
echo "demo exit with change: $W1 ; without change: $W0"
