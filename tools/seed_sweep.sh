#!/bin/sh
# runs only the random-grammar jobs of C01, C02, C05 (and all of C04) for a range of seeds
cd /verif
for seed in $(seq ${1:-1} ${2:-10}); do
  for id in C01 C02 C05 C04; do
    out=$(GV_RANDOM_ONLY=1 VERIF_SEED=$seed timeout 1800 ./bin/gv check $id --tier quick 2>/dev/null | grep -v "^\[" | tail -2 | cut -c1-200 | tr '\n' ' ')
    echo "seed=$seed $id: $out"
  done
done
