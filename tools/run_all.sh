#!/bin/sh
# runs every registered check (quick tier by default) sequentially and summarises
TIER=${1:-quick}
cd /verif
for id in $(./bin/gv list); do
  s=$(date +%s)
  out=$(timeout 3000 ./bin/gv check $id --tier $TIER 2>/dev/null | grep -v "^\[" | tail -3 | cut -c1-220)
  e=$(date +%s)
  echo "$id $((e-s))s: $out"
done
