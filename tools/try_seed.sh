#!/bin/sh
# usage: try_seed.sh <patch.diff> <check-id>...   applies the patch to /repo, runs the quick checks, reverts.
P=$1; shift
cd /repo || exit 2
git diff --quiet || { echo "repo dirty"; exit 2; }
git apply "$P" || { echo "patch does not apply"; exit 2; }
for c in "$@"; do
  echo "=== $c with $(basename $(dirname $(dirname $P)))"
  (cd /verif && timeout 1500 ./bin/gv check $c 2>/dev/null | grep -v "^\[" | cut -c1-250 | head -8; echo "exit=$?")
done
git checkout -- . 
git status --short | head -3
