#!/bin/sh
# Applies every seeded change to /repo in turn, runs the quick check of the property it breaks,
# reverts, and prints one line per seed. Must be run with /repo clean.
cd /verif
for d in seeded/*/; do
  name=$(basename $d)
  prop=$(python3 -c "import json;print(json.load(open('$d/meta.json'))['property_broken'])")
  git -C /repo diff --quiet || { echo "repo dirty"; exit 2; }
  git -C /repo apply $d/patch.diff || { echo "$name: patch does not apply"; continue; }
  s=$(date +%s)
  out=$(timeout 2400 ./bin/gv check $prop --tier quick 2>/dev/null | grep -v "^\[")
  code=$?
  e=$(date +%s)
  git -C /repo checkout -- .
  nv=$(echo "$out" | grep -c "^VIOLATION")
  ni=$(echo "$out" | grep -c "^INCONCLUSIVE")
  echo "$name: check=$prop violations=$nv inconclusive=$ni time=$((e-s))s first: $(echo "$out" | grep -A1 '^VIOLATION' | sed -n 2p | cut -c1-120)"
done
