#!/bin/sh
# Applies every seeded change to /repo in turn, runs the quick tier of the checks named in the
# seed's meta.json (caught_by; falls back to the property it breaks) until one reports a
# violation, reverts, and prints one line per seed. /repo must be clean and NO other check may
# run at the same time (the checks read /repo's working tree).
cd /verif
for d in seeded/*/; do
  name=$(basename $d)
  [ -f $d/meta.json ] || continue
  checks=$(python3 -c "
import json,re
m=json.load(open('$d/meta.json'))
ids=[]
for c in m.get('caught_by',[]):
    for x in re.findall(r'C\d\d', c.split(' ')[0]):
        if x not in ids: ids.append(x)
if not ids: ids=[m['property_broken']]
print(' '.join(ids))")
  git -C /repo diff --quiet || { echo "repo dirty"; exit 2; }
  git -C /repo apply /verif/${d}patch.diff || { echo "$name: patch does not apply"; continue; }
  res=""
  for prop in $checks; do
    s=$(date +%s)
    out=$(timeout 2400 ./bin/gv check $prop --tier quick 2>/dev/null | grep -v "^\[")
    e=$(date +%s)
    nv=$(echo "$out" | grep -c "^VIOLATION")
    ni=$(echo "$out" | grep -c "^INCONCLUSIVE")
    res="$res $prop:violations=$nv,inconclusive=$ni,$((e-s))s"
    [ "$nv" -gt 0 ] && break
  done
  git -C /repo checkout -- .
  echo "$name:$res"
done
