#!/usr/bin/env python3
"""Regenerates /verif/MANIFEST.json from the table below (kept in sync with gv's registered checks)."""
import json, sys
props = [json.loads(l) for l in open('/verif/properties.jsonl')]
TRUST = "go/ssa lowering; the gosym engine's instruction semantics (every cover-point model and every counterexample is replayed through the natively compiled harness); solvers z3 5.1.0 / z3 4.8.12 / cvc5 1.0 (portfolio, any error or unknown is inconclusive); the harness oracles in /verif/harness"
CHECKS = {
 "C10": dict(text="Bounded model checking of the generated token package of corpus grammars (hostile spellings; combined, -no_lexer, lexer-only, with error symbol): INVALID=0, EOF=1, one distinct number per terminal, Type(Id(n)) == n for a symbolic n, Id(Type(s)) == s for every terminal, unknown names (symbolic, <= 3 bytes) map to INVALID. The lexer/parser half of the property is enforced through C01/C02/C05/C06, whose oracles speak names and convert through the generated TokMap.", ref="7 C10", tech="symbolic execution of generated Go (go/ssa -> QF_BV), decided by z3/cvc5"),
 "C12": dict(text="Bounded model checking of flagged builds: parsers generated with -zip, -debug_parser, -v, -no_lexer (and combined) are run in lock-step with the same reference canonical LR(1) machine as the flag-free build (verdict, reductions, offending token, expected tokens) for every token sequence up to the bound; lexers generated with -debug_lexer / -zip / -v are checked against the same reference lexer and position specification as the flag-free build.", ref="7 C12", tech="symbolic execution of generated Go in lock-step with reference machines (QF_BV); -zip tables obtained natively and injected; z3/cvc5"),
 "C16": dict(text="Bounded model checking of reuse: generated Lexer.Reset (any earlier state, and real histories of Scan calls) and generated Parser.Parse on a used parser object are compared, token by token / action call by action call, with fresh objects on the same input; abstract tables cover all automata up to the state bound, corpus tables confirm counterexamples.", ref="7 C16", tech="self-composition (2-safety) harness executed symbolically over abstract tables, QF_BV, decided by z3/cvc5"),
 "C17": dict(text="Non-interference by solver: every store executed by the generated entry points on abstract tables and symbolic input must target an object allocated by the caller's own calls; 'path condition AND target pre-exists' is unsat for every store, so the generated code performs no write to shared state and results per goroutine are the sequential ones.", ref="7 C17", tech="store-target obligations from symbolic execution of the generated Go over abstract tables (QF_BV), decided by z3/cvc5"),
 "C18": dict(text="Bounded model checking of the real DisjunctRangeSet.AddRange/insertRange/AddLexTNode/List/Range and Item.match (go/ssa -> QF_BV): one inductive step from an arbitrary well-formed class set plus a from-empty run; unsat for every rune/range value inside the bound.", ref="7 C18", tech="symbolic execution of go/ssa into QF_BV, inductive step + BMC, decided by z3/cvc5"),
 "C01": dict(text="Bounded model checking of the generated Lexer.Scan (tables and loop emitted by the current gocc) against a reference lexer over /verif's own Thompson NFA of each corpus lexical grammar, transcribing the property (maximal viable prefix, '.' only where nothing more specific matches, priority literal > declaration order, ignored text skipped, INVALID consumes the killing character, EOF sticky): for every source up to the byte bound and every reachable start offset, same token name, start, length and lexer offset.", ref="7 C01", tech="symbolic execution of generated Go against an executable NFA reference lexer (go/ssa -> QF_BV equivalence query), decided by z3/cvc5"),
 "C02": dict(text="Bounded model checking of the generated Parser.Parse (tables and driver emitted by the current gocc on every run) against a CYK recogniser over /verif's own representation of each corpus grammar: for every token sequence up to the length bound, err == nil iff the sequence is a sentence; termination = unwinding assertion of the parse loop.", ref="7 C02", tech="symbolic execution of generated Go (go/ssa -> QF_BV, path forking decided by the solver) against an executable CYK oracle; z3/cvc5"),
 "C03": dict(text="Bounded model checking of the generated parser with recording actions on every alternative: for every token sequence up to the bound and every choice of a failing action, the recorded calls are the post-order evaluation of a derivation tree with the scanner's own token objects at the leaves; default actions checked on the generated reduce functions.", ref="7 C03", tech="symbolic execution of generated Go with trace-checking harness (QF_BV), decided by z3/cvc5"),
 "C04": dict(text="Kernel level only: bounded model checking of (*ItemSet).Action on every item set of up to K arbitrary items in every order (a conflict is reported iff two different actions compete; accept competing with a reduction is refused by a panic) and of main.handleConflicts (non-zero exit iff conflicts and no -a). The grammar axis is not symbolic; closure/goto are covered only through the corpus pipelines of C02/C05.", ref="7 C04", tech="symbolic execution of go/ssa into QF_BV (path forking in Action), decided by z3/cvc5"),
 "C05": dict(text="Kernel: (*ItemSet).Action returns the shift if any item shifts, else the reduction with the smallest production index, for every item set up to K items in every order. Pipeline: conflicting corpus grammars through gocc -a, generated Parse in lock-step with /verif's own canonical LR(1) automaton resolved by the stated rule: same verdict and same reduction sequence for every token sequence up to the bound.", ref="7 C05", tech="symbolic execution of go/ssa and of generated Go in lock-step with a reference LR(1) machine (QF_BV), decided by z3/cvc5"),
 "C06": dict(text="Bounded model checking of error reports of the generated parser against a viable-prefix recogniser: first offending token (object identity), no action with it as look-ahead, expected list = exact follow set of the valid prefix, for every non-sentence up to the length bound.", ref="7 C06", tech="symbolic execution of generated Go against an executable viable-prefix oracle (QF_BV), decided by z3/cvc5"),
 "C07": dict(text="Bounded model checking of error recovery in the generated parser: for every token sequence up to the bound on grammars with error alternatives, no panic record and no unwinding failure of Parse/Error/popNonRecoveryStates/firstRecoveryState is satisfiable; verdict, reductions, attributes and error attributes equal those of a reference LR driver with its own transcription of the stated recovery rule; error alternatives are inert on sentences of the error-free twin (CYK).", ref="7 C07", tech="symbolic execution of generated Go in lock-step with a reference driver (QF_BV, solver-decided path forking), z3/cvc5"),
 "C08": dict(text="Bounded model checking of the generated Lexer.Scan (emitted by the current template on every run): one Scan from every reachable (offset,line,column) on ABSTRACT tables (transition function uninterpreted, action rows arbitrary under the generator's row contract: all lexers with <= 4 states at once) and on the real tables of corpus lexers; positions, literal, tiling and the re-established position invariant are asserted for every source up to the byte bound.", ref="7 C08", tech="symbolic execution of the generated Go (go/ssa -> QF_BV) over uninterpreted lexer tables, inductive step, decided by z3/cvc5"),
 "C19": dict(text="Bounded model checking of the real md.loadMd on every rune slice up to the length bound against a position-wise specification of fenced-code extraction.", ref="7 C19", tech="symbolic execution of go/ssa into QF_BV, BMC over all inputs up to a length, decided by z3/cvc5"),
 "C20": dict(text="Bounded model checking of util.LitToRune against strconv.UnquoteChar (both executed symbolically) on every valid rune literal (all lengths 3..12 bytes), and of IntValue/UintValue as pass-through wrappers of strconv (uninterpreted).", ref="7 C20", tech="symbolic execution of go/ssa into QF_BV, differential harness against the standard library, decided by z3/cvc5"),
}
NA = {
 "C09": "whole-program property of the generator process (flag parsing, file I/O, text/template, go/format) whose oracle is the Go type checker; no bounded integer/array kernel carries it, so an SSA->QF_BV encoding cannot reach it (DESIGN.md section 11)",
}
checks = []
for p in props:
    i = p['id']
    if i in CHECKS:
        c = CHECKS[i]
        checks.append({
            "property_id": i,
            "quick_cmd": f"/verif/bin/gv check {i} --tier quick",
            "thorough_cmd": f"/verif/bin/gv check {i} --tier thorough",
            "evidence_file": f"/verif/evidence/{i}.json",
            "replay_cmd_template": "/verif/bin/gv replay {path}",
            "engine": "gosym",
            "level_claimed": {"category": "model_checking", "text": c["text"], "design_ref": c["ref"]},
            "level_note": TRUST + "; bounds as printed in the evidence file's coverage.bounds",
            "technique": c["tech"],
        })
na = []
for p in props:
    i = p['id']
    if i not in CHECKS:
        na.append({"property_id": i, "reason": NA.get(i, "check not built yet (work in progress; plan in DESIGN.md section 7)")})
m = {"version": 1,
 "setup_cmd": "cd /verif && ./setup.sh",
 "hooks": {"guard": "verif", "enable": "harness files carry //go:build verif and are injected with go/packages overlays (symbolic run) and go test -overlay -tags verif (native replay); no source change in /repo is needed", "baseline_off_cmd": "cd /repo && go build ./... && go test -vet=off -count=1 ./...", "source_commits": [], "add_only": True},
 "engines": [{"name": "gosym", "path": "/verif/gosym", "serves_properties": sorted(CHECKS), "kind_free_text": "merged/forking symbolic execution of go/ssa into QF_BV (hash-consed terms, cell-based memory), obligations decided by z3 5.1.0, z3 4.8.12 and cvc5 1.0; counterexamples replayed natively"}],
 "checks": checks,
 "not_applicable": na,
 "notes": "exit codes of gv: 0 = all obligations discharged, 1 = VIOLATION (confirmed by native replay), 3 = inconclusive (timeout/unknown/unsupported/engine mismatch; never reported as success or as violation)"}
json.dump(m, open('/verif/MANIFEST.json', 'w'), indent=1)
print("checks:", [c['property_id'] for c in checks])
