package main

import (
	"fmt"
	"os"

	"verif/gosym/solver"
	"verif/gv"
)

func main() {
	if len(os.Args) > 1 && os.Args[1] == "try" {
		t := &gv.Target{ModDir: "/repo", PkgDir: "/repo/internal/lexer/items", PkgPath: "github.com/goccmack/gocc/internal/lexer/items", PkgName: "items", Harness: []string{"/verif/harness/items/c18.go"}}
		prog, pkg, err := t.Load()
		if err != nil {
			fmt.Println(err)
			os.Exit(2)
		}
		res, err := gv.Exec(prog, pkg, "github.com/goccmack/gocc", gv.SymRun{Harness: os.Args[2], Params: map[string]int{"N": atoi(os.Getenv("N"))}})
		if err != nil {
			fmt.Println("ERR", err)
		}
		e := res.Engine
		fmt.Printf("exec %.2fs instrs=%d blocks=%d merges=%d terms=%d asserts=%d panics=%d unwinds=%d covers=%d\n", res.ExecS, e.Instrs, e.Blocks, e.Merges, e.S.Created, len(e.Asserts), len(e.Panics), len(e.Unwinds), len(e.Covers))
		dir, _ := os.MkdirTemp("", "gvq")
		res.Solve(solver.Portfolio, dir, 120, 16)
		for _, o := range res.Outcomes {
			fmt.Printf("%-30s %-6s expect %-5s %.2fs %s | %s %s\n", o.Ob.Name, o.Status, o.Ob.Expect, o.Res.Seconds, o.Res.Solver, o.Ob.Rec.Msg, o.Ob.Rec.Pos)
		}
	}
}

func atoi(s string) int { n := 0; fmt.Sscanf(s, "%d", &n); return n }
