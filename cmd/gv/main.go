// gv is the driver of the solver-based checks of /verif.
//
//	gv check <id> [--tier quick|thorough]
//	gv replay <file>
//	gv list
package main

import (
	"flag"
	"fmt"
	"os"
	"runtime"
	"runtime/debug"
	"runtime/pprof"
	"strconv"
	"time"

	"verif/gv"
)

func main() {
	if len(os.Args) < 2 {
		fmt.Println("usage: gv check <id> [--tier quick|thorough] | gv replay <file> | gv list")
		os.Exit(2)
	}
	// the engine allocates many short-lived immutable values; a lazier collector halves run time
	debug.SetGCPercent(200)
	debug.SetMemoryLimit(20 << 30)
	go func() {
		// watchdog: a run that needs more memory than this is reported as inconclusive instead of
		// taking the machine down
		for {
			time.Sleep(2 * time.Second)
			var m runtime.MemStats
			runtime.ReadMemStats(&m)
			if m.HeapAlloc > 30<<30 {
				fmt.Println("INCONCLUSIVE memory budget (30 GiB) exceeded; reduce the bound of the job that was running")
				os.Exit(3)
			}
		}
	}()
	if pf := os.Getenv("GV_PROFILE"); pf != "" {
		f, _ := os.Create(pf)
		pprof.StartCPUProfile(f)
		defer pprof.StopCPUProfile()
	}
	code := run()
	pprof.StopCPUProfile()
	os.Exit(code)
}

func run() int {
	switch os.Args[1] {
	case "list":
		for _, id := range gv.CheckIDs() {
			fmt.Println(id)
		}
	case "check":
		fs := flag.NewFlagSet("check", flag.ExitOnError)
		tier := fs.String("tier", os.Getenv("VERIF_TIER"), "quick or thorough")
		id := os.Args[2]
		fs.Parse(os.Args[3:])
		if *tier == "" {
			*tier = "quick"
		}
		seed, _ := strconv.Atoi(os.Getenv("VERIF_SEED"))
		return gv.RunCheck(id, *tier, seed)
	case "dbgreplay":
		gv.DebugReplay(os.Args[2], os.Args[3])
	case "replay":
		return gv.ReplayFileCmd(os.Args[2])
	default:
		fmt.Println("unknown command", os.Args[1])
		return 2
	}
	return 0
}
